#!/bin/sh
# tools/run_all.sh [quick|thorough] [seed]   -- run every check once, one line each
TIER="${1:-quick}"; SEED="${2:-0}"
cd /verif
for i in 01 02 03 04 05 06 07 08 09 10 11 12 13 14 15 16 17 18 19 20; do
  t0=$(date +%s)
  VERIF_SEED=$SEED ./check C$i $TIER > /tmp/runall-C$i.log 2>&1; rc=$?
  t1=$(date +%s)
  echo "C$i rc=$rc $((t1-t0))s $(grep -c '^KNOWN-FINDING' /tmp/runall-C$i.log) known; $(grep 'verdict=' /tmp/runall-C$i.log | cut -c1-110)"
done
