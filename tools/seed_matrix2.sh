#!/bin/sh
# tools/seed_matrix2.sh <verif-dir> <pattern>   e.g. /tmp/verif-old 'C*-[cd]'
VD="$1"; PAT="$2"
cd /verif
for d in seeded/$PAT/; do
  id=$(basename $d); prop=$(echo $id | cut -d- -f1)
  res=$(VERIF_DIR=$VD tools/try_seed.sh $d/patch.diff $prop quick 2>&1)
  if echo "$res" | grep -q "patch does not apply"; then v="PATCH-DOES-NOT-APPLY";
  elif echo "$res" | grep -q "^VIOLATION"; then v="caught: $(echo "$res" | grep mechanism | head -1 | cut -c1-150)";
  elif echo "$res" | grep -q "INCONCLUSIVE"; then v="INCONCLUSIVE: $(echo "$res" | grep INCONCLUSIVE | head -1 | cut -c1-120)";
  else v="MISSED ($(echo "$res" | grep verdict | cut -c1-80))"; fi
  echo "$id $(basename $VD) $v"
done
