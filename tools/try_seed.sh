#!/bin/sh
# tools/try_seed.sh <patch.diff> <Cxx> [quick|thorough] [more Cxx ...]
# Apply a seeded change to /repo, run the named check(s), undo the change.
PATCH="$(realpath "$1")"; shift
TIER=quick
git -C /repo diff --quiet || { echo "/repo working tree not clean"; exit 3; }
trap 'git -C /repo reset -q --hard HEAD ; git -C /repo status --short | head -3' EXIT INT TERM
git -C /repo apply "$PATCH" 2>/dev/null || git -C /repo apply --3way "$PATCH" || { echo "patch does not apply"; exit 3; }
for a in "$@"; do
  case "$a" in quick|thorough) TIER="$a";; esac
done
for a in "$@"; do
  case "$a" in quick|thorough) ;; *)
    cp ${VERIF_DIR:-/verif}/evidence/$a.json /tmp/evidence-$a.bak 2>/dev/null
    ${VERIF_DIR:-/verif}/check "$a" "$TIER" 2>&1 | grep -v "WARNING conda" | cut -c1-260 | grep -v "^KNOWN-FINDING" | tail -8
    echo "exit=$? (of tail) ; check $a $TIER done"
    cp /tmp/evidence-$a.bak ${VERIF_DIR:-/verif}/evidence/$a.json 2>/dev/null
  ;; esac
done
