#!/venv/bin/python
"""Regenerate MANIFEST.json from the check modules' own metadata (one source
of truth: pv/checks/cXX.py -> PROPERTY, LEVEL, MANIFEST_TEXT, MANIFEST_NOTE,
TECHNIQUE, DESIGN_REF) and validate it against the schema."""
import importlib, json, os, sys
HERE = os.path.dirname(os.path.dirname(os.path.abspath(__file__)))
sys.path.insert(0, HERE)
props = [json.loads(l)['id'] for l in open(os.path.join(HERE, 'properties.jsonl'))]
checks, na = [], []
NOT_APPLICABLE = {}
for pid in props:
    path = os.path.join(HERE, 'pv', 'checks', pid.lower() + '.py')
    if not os.path.exists(path):
        na.append({'property_id': pid, 'reason': NOT_APPLICABLE.get(
            pid, 'check not built yet in this round (runtime monitoring applies; see DESIGN.md section 3)')})
        continue
    src = open(path).read()
    meta = {}
    # read metadata without importing panqec
    import ast
    tree = ast.parse(src)
    for node in tree.body:
        if isinstance(node, ast.Assign) and len(node.targets) == 1 and isinstance(node.targets[0], ast.Name):
            name = node.targets[0].id
            if name in ('PROPERTY', 'LEVEL', 'MANIFEST_TEXT', 'MANIFEST_NOTE', 'TECHNIQUE', 'DESIGN_REF'):
                meta[name] = ast.literal_eval(node.value)
    checks.append({
        'property_id': pid,
        'quick_cmd': f'./check {pid} quick',
        'thorough_cmd': f'./check {pid} thorough',
        'evidence_file': f'evidence/{pid}.json',
        'replay_cmd_template': f'./check {pid} --replay {{path}}',
        'engine': 'pv',
        'level_claimed': {'category': meta['LEVEL'], 'text': meta['MANIFEST_TEXT'],
                          'design_ref': meta.get('DESIGN_REF', f'DESIGN.md section 3, {pid}')},
        'level_note': meta['MANIFEST_NOTE'],
        'technique': meta['TECHNIQUE'],
    })
manifest = {
    'version': 1,
    'setup_cmd': 'mkdir -p evidence replays && /venv/bin/python -m compileall -q pv && PYTHONPATH=. /venv/bin/python -m pv.gf2',
    'hooks': {
        'guard': 'PANQEC_VERIF',
        'enable': 'no instrumentation lives inside panqec: every observation point is reached from outside (attribute substitution, class-level wrappers, sys.monitoring, recording proxies around ldpc / pymatching, Flask test client); ./check exports PANQEC_VERIF=1 only for uniformity',
        'baseline_off_cmd': 'cd /repo && /venv/bin/python -m pytest -ra -q -p no:cacheprovider --timeout=900 --continue-on-collection-errors',
        'source_commits': [],
        'add_only': True,
    },
    'engines': [{'name': 'pv', 'path': 'pv/', 'serves_properties': [c['property_id'] for c in checks],
                 'kind_free_text': 'runtime monitoring: real panqec code driven by enumerated/random/hostile workloads in up to 16 shard processes; reference-model oracles (own GF(2) arithmetic), invariant hooks, recorded-history checkers, fault injection'}],
    'checks': checks,
    'not_applicable': na,
    'notes': 'Exit codes of ./check: 0 held (KNOWN-FINDING lines allowed), 1 VIOLATION, 2 INCONCLUSIVE (monitor not reached / shard died). known_findings.json is the committed list of genuine defects (known / fixed).',
}
out = os.path.join(HERE, 'MANIFEST.json')
json.dump(manifest, open(out, 'w'), indent=1)
try:
    import jsonschema
    jsonschema.validate(manifest, json.load(open('/root/.vp/MANIFEST.schema.json')))
    print('MANIFEST valid;', len(checks), 'checks;', len(na), 'not_applicable')
except ImportError:
    print('jsonschema not available; wrote MANIFEST with', len(checks), 'checks')
