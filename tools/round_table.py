#!/usr/bin/env python3
"""tools/round_table.py <letters> <baseline-log> <after-log> <added.json>
Prints the markdown table of one round of seeded changes for DESIGN.md."""
import json
import re
import sys

letters, base_log, new_log, added_file = sys.argv[1:5]
pat = re.compile(r'(C\d\d-[a-z]) \S+ (.*)')


def read(path):
    d = {}
    for ln in open(path):
        m = pat.match(ln.strip())
        if m:
            d[m.group(1)] = m.group(2)
    return d


old, new = read(base_log), read(new_log)
added = json.load(open(added_file))
rows = []
miss = 0
for i in range(1, 21):
    for x in letters:
        k = f'C{i:02d}-{x}'
        m = json.load(open(f'/verif/seeded/{k}/meta.json'))
        summ = str(m.get('summary', '')).replace('|', '/').replace('\n', ' ')
        o = 'caught' if old.get(k, '').startswith('caught') else 'MISSED'
        miss += o == 'MISSED'
        n = 'caught' if new.get(k, '').startswith('caught') else \
            new.get(k, 'not run')[:24]
        rows.append(f"| {k} | {summ[:150]}... | {o} | {n} | "
                    f"{added.get(k, '') if o == 'MISSED' else ''} |")
print(f'<!-- {40 - miss} caught, {miss} missed at the baseline -->')
print('| id | change (agent\'s summary) | frozen checks | strengthened '
      'checks | what was added |')
print('|---|---|---|---|---|')
print('\n'.join(rows))
