#!/bin/sh
# tools/seed_matrix.sh [tier]  -- every kept seed vs. the check of its property
TIER="${1:-quick}"
cd /verif
for d in seeded/${2:-}*/; do
  id=$(basename $d); prop=$(echo $id | cut -d- -f1)
  res=$(tools/try_seed.sh $d/patch.diff $prop $TIER 2>&1)
  if echo "$res" | grep -q "patch does not apply"; then v="PATCH-DOES-NOT-APPLY";
  elif echo "$res" | grep -q "^VIOLATION"; then v="caught: $(echo "$res" | grep mechanism | head -1 | cut -c1-150)";
  else v="MISSED ($(echo "$res" | grep verdict | cut -c1-80))"; fi
  echo "$id $TIER $v"
done
