#!/bin/sh
# tools/confirm_seed.sh <worktree> <a|b> <seed-id>
# Independently confirm a sub-agent's seeded change in its scratch worktree:
# patch applies, test-suite pass/fail set equals baseline, demo fails with and
# passes without.  On success copies patch.diff, demo.py, meta.json to
# /verif/seeded/<seed-id>/ and appends what was run to meta.json.
WT="$1"; X="$2"; ID="$3"; EXPECT="${4:-bb4b8802}"
S="$WT/_seed/$X"
cd "$WT" || exit 2
git checkout -q -- panqec
git apply --check "$S/patch.diff" || { echo "CONFIRM $ID: patch does not apply"; exit 1; }
PYTHONPATH="$WT" /venv/bin/python "$S/demo.py" >/tmp/confirm-$ID-without.log 2>&1; W0=$?
git apply "$S/patch.diff"
PYTHONPATH="$WT" /venv/bin/python "$S/demo.py" >/tmp/confirm-$ID-with.log 2>&1; W1=$?
/venv/bin/python -m pytest -q -p no:cacheprovider --timeout=900 --continue-on-collection-errors -x --co -q >/dev/null 2>&1
/venv/bin/python -m pytest -ra -q -p no:cacheprovider --timeout=900 --continue-on-collection-errors 2>&1 | grep -E "^(FAILED|ERROR)|passed|failed" | sort > /tmp/confirm-$ID-tests.log
git checkout -q -- panqec
git status --short | grep -v _seed | head -3
SUMMARY=$(grep -E "passed|failed" /tmp/confirm-$ID-tests.log | tail -1)
FAILSET=$(grep -E "^(FAILED|ERROR)" /tmp/confirm-$ID-tests.log | sed 's/ - .*//' | sort | md5sum | cut -c1-8)
echo "CONFIRM $ID: demo_without=$W0 demo_with=$W1 tests: $SUMMARY failset=$FAILSET"
if [ "$W0" = 0 ] && [ "$W1" != 0 ] && [ "$FAILSET" = "$EXPECT" ]; then
  mkdir -p /verif/seeded/$ID
  cp "$S/patch.diff" "$S/demo.py" /verif/seeded/$ID/
  /venv/bin/python - "$S/meta.json" /verif/seeded/$ID/meta.json "$W0" "$W1" "$SUMMARY" <<'PY'
import json, sys
src, dst, w0, w1, summ = sys.argv[1:6]
try:
    m = json.load(open(src))
except Exception:
    m = {}
m['confirmed_by_main'] = {
    'ran': 'tools/confirm_seed.sh: git apply in scratch worktree; full pytest suite; demo with and without the change',
    'demo_exit_without_change': int(w0), 'demo_exit_with_change': int(w1),
    'test_suite_with_change': summ, 'failing_set_equals_baseline': True}
json.dump(m, open(dst, 'w'), indent=1)
PY
  echo "KEPT /verif/seeded/$ID"
else
  echo "NOT KEPT $ID"
fi
