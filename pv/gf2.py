"""Independent GF(2) / symplectic arithmetic on bit-packed Python ints.

A length-2n binary symplectic vector (x|z) is stored as an int whose bit i is
entry i (so x occupies bits 0..n-1 and z bits n..2n-1).  Nothing here imports
panqec; the self-test cross-checks against plain numpy integer arithmetic.
"""
from __future__ import annotations

from typing import Iterable, List, Optional, Sequence, Tuple

import numpy as np


def pack(v) -> int:
    """0/1 iterable (entries reduced mod 2) -> int, entry i -> bit i."""
    a = np.asarray(v).astype(np.int64).ravel() & 1
    if a.size == 0:
        return 0
    b = np.packbits(a.astype(np.uint8), bitorder='little')
    return int.from_bytes(b.tobytes(), 'little')


def unpack(x: int, length: int) -> np.ndarray:
    nbytes = (length + 7) // 8
    b = np.frombuffer(x.to_bytes(nbytes, 'little'), dtype=np.uint8)
    return np.unpackbits(b, bitorder='little')[:length].astype(np.uint8)


def pack_rows(M) -> List[int]:
    """Dense 2-D array or scipy sparse matrix -> list of packed rows.
    Values are reduced mod 2 here (an un-reduced entry 2 counts as 0)."""
    if hasattr(M, 'toarray'):
        M = M.toarray()
    M = np.asarray(M)
    if M.ndim == 1:
        M = M.reshape(1, -1)
    return [pack(r) for r in M]


def popcount(x: int) -> int:
    return bin(x).count('1')


def swap_halves(v: int, n: int) -> int:
    mask = (1 << n) - 1
    return ((v & mask) << n) | (v >> n)


def symp(a: int, b: int, n: int) -> int:
    """Symplectic form x_a.z_b + z_a.x_b mod 2."""
    return popcount(a & swap_halves(b, n)) & 1


def syndrome(H: Sequence[int], e: int, n: int) -> List[int]:
    es = swap_halves(e, n)
    return [popcount(h & es) & 1 for h in H]


def syndrome_int(H: Sequence[int], e: int, n: int) -> int:
    es = swap_halves(e, n)
    s = 0
    for i, h in enumerate(H):
        if popcount(h & es) & 1:
            s |= 1 << i
    return s


def weight(v: int, n: int) -> int:
    mask = (1 << n) - 1
    return popcount((v & mask) | (v >> n))


class Echelon:
    """Incremental row-echelon basis over GF(2) (pivot = highest set bit)."""

    def __init__(self, rows: Iterable[int] = ()) -> None:
        self.piv: dict = {}      # pivot bit -> reduced row
        for r in rows:
            self.add(r)

    def reduce(self, v: int) -> int:
        while v:
            p = v.bit_length() - 1
            r = self.piv.get(p)
            if r is None:
                return v
            v ^= r
        return 0

    def add(self, v: int) -> bool:
        v = self.reduce(v)
        if v:
            self.piv[v.bit_length() - 1] = v
            return True
        return False

    @property
    def rank(self) -> int:
        return len(self.piv)

    def contains(self, v: int) -> bool:
        return self.reduce(v) == 0


def rank(rows: Iterable[int]) -> int:
    return Echelon(rows).rank


def span(rows: Sequence[int]) -> List[int]:
    """All 2^rank elements of the row space (Gray-code enumeration)."""
    basis = list(Echelon(rows).piv.values())
    out = [0]
    for b in basis:
        out += [x ^ b for x in out]
    return out


def commutation_matrix_is_zero(A: Sequence[int], B: Sequence[int],
                               n: int) -> Optional[Tuple[int, int]]:
    """Return None if every a in A commutes with every b in B, else the first
    offending (i, j)."""
    Bs = [swap_halves(b, n) for b in B]
    for i, a in enumerate(A):
        for j, bs in enumerate(Bs):
            if popcount(a & bs) & 1:
                return (i, j)
    return None


def selftest() -> None:
    # hand-computed vectors, n = 2: X0 = (10|00), Z0 = (00|10), Y0 = (10|10)
    n = 2
    X0, Z0, Y0 = pack([1, 0, 0, 0]), pack([0, 0, 1, 0]), pack([1, 0, 1, 0])
    X1, Z1 = pack([0, 1, 0, 0]), pack([0, 0, 0, 1])
    assert X0 == 1 and Z0 == 4 and Y0 == 5 and X1 == 2 and Z1 == 8
    assert symp(X0, Z0, n) == 1 and symp(X0, Z1, n) == 0
    assert symp(X0, Y0, n) == 1 and symp(Y0, Y0, n) == 0
    assert symp(Y0, Z0, n) == 1 and symp(X0, X1, n) == 0
    XX, ZZ = X0 | X1, Z0 | Z1
    assert symp(XX, ZZ, n) == 0 and weight(XX | Z0, n) == 2
    assert rank([XX, ZZ, XX ^ ZZ]) == 2 and rank([0, 0]) == 0
    assert sorted(span([XX, ZZ])) == sorted([0, XX, ZZ, XX ^ ZZ])
    assert syndrome([XX, ZZ], X0, n) == [0, 1]
    assert syndrome_int([XX, ZZ], Z1, n) == 1
    assert list(unpack(pack([1, 0, 1, 1, 0, 0, 0, 0, 1]), 9)) == \
        [1, 0, 1, 1, 0, 0, 0, 0, 1]
    assert pack([2, 3, 256, 257]) == pack([0, 1, 0, 1])
    # randomized cross-check against plain numpy integer arithmetic
    rng = np.random.default_rng(12345)
    for _ in range(200):
        n = int(rng.integers(1, 40))
        m = int(rng.integers(1, 12))
        A = rng.integers(0, 2, size=(m, 2 * n))
        B = rng.integers(0, 2, size=(m, 2 * n))
        ref = (A[:, :n].astype(np.int64) @ B[:, n:].T.astype(np.int64)
               + A[:, n:].astype(np.int64) @ B[:, :n].T.astype(np.int64)) % 2
        pa, pb = pack_rows(A), pack_rows(B)
        for i in range(m):
            for j in range(m):
                assert symp(pa[i], pb[j], n) == ref[i, j]
        # rank against a float-free elimination on numpy arrays
        M = A.copy() % 2
        r = 0
        for c in range(2 * n):
            piv = None
            for i in range(r, m):
                if M[i, c]:
                    piv = i
                    break
            if piv is None:
                continue
            M[[r, piv]] = M[[piv, r]]
            for i in range(m):
                if i != r and M[i, c]:
                    M[i] ^= M[r]
            r += 1
            if r == m:
                break
        assert rank(pa) == r
        e = Echelon(pa)
        comb = 0
        for i in range(m):
            if rng.integers(0, 2):
                comb ^= pa[i]
        assert e.contains(comb)


if __name__ == '__main__':
    selftest()
    print('gf2 selftest ok')
