import sys
from pv.common import main

if __name__ == '__main__':
    sys.exit(main())
