"""pytest plugin: run the repository's own test-suite with post-conditions of
C03 / C04 / C07 / C11 installed on the real functions ("contract mode").

The 779 tests then serve as an extra, diverse workload; their own assertions
are irrelevant here -- only contract evaluations / violations are counted and
written to $PV_CONTRACT_OUT as JSON at session end.  Selected by
$PV_CONTRACTS (comma separated: bs_prod,is_success,probability,run_once).
"""
from __future__ import annotations

import json
import os

import numpy as np

from pv import gf2

STATS = {'evaluations': {}, 'skipped': {}, 'violations': []}


def _count(name, key='evaluations'):
    STATS[key][name] = STATS[key].get(name, 0) + 1


def _viol(name, what, witness=None):
    if len(STATS['violations']) < 40:
        STATS['violations'].append({'contract': name, 'what': what,
                                    'witness': witness})


def _dense(a):
    if hasattr(a, 'toarray'):
        a = a.toarray()
    return np.asarray(a)


def install_bs_prod():
    import panqec.bpauli as bp
    import panqec.codes.base._stabilizer_code as sc
    orig = bp.bs_prod

    def bs_prod(a, b):
        r = orig(a, b)
        try:
            A, B = _dense(a), _dense(b)
            if A.ndim == 1:
                A = A.reshape(1, -1)
            if B.ndim == 1:
                B = B.reshape(1, -1)
            if A.shape[0] * B.shape[0] > 40000 or A.shape[1] > 6000:
                _count('bs_prod', 'skipped')
                return r
            n = A.shape[1] // 2
            pa = gf2.pack_rows(A)
            pb = [gf2.swap_halves(x, n) for x in gf2.pack_rows(B)]
            ref = np.array([[gf2.popcount(x & y) & 1 for y in pb]
                            for x in pa])
            _count('bs_prod')
            got = np.asarray(r)
            if got.size != ref.size or not np.array_equal(
                    got.reshape(ref.shape).astype(int), ref):
                _viol('bs_prod', 'bs_prod differs from the symplectic form',
                      {'shape_a': list(A.shape), 'shape_b': list(B.shape)})
        except Exception as e:                  # contract must never raise
            _count('bs_prod-contract-error', 'skipped')
        return r
    bp.bs_prod = bs_prod
    sc.bs_prod = bs_prod
    # get_effective_error looks bs_prod up in bpauli's globals: covered


_ECH = {}


def install_is_success():
    import panqec.codes.base._stabilizer_code as sc
    orig = sc.StabilizerCode.is_success

    def is_success(self, total_error):
        r = orig(self, total_error)
        try:
            if self.n > 400:
                _count('is_success', 'skipped')
                return r
            key = (id(self), self.is_deformed, self.deformation_name,
                   repr(self.deformation_kwargs))
            if key not in _ECH:
                if len(_ECH) > 200:
                    _ECH.clear()
                _ECH[key] = gf2.Echelon(gf2.pack_rows(self.stabilizer_matrix))
            e = gf2.pack(np.asarray(total_error).ravel())
            _count('is_success')
            if bool(r) != _ECH[key].contains(e):
                _viol('is_success', f'is_success={r} but in-group='
                      f'{not bool(r)}', {'code': type(self).__name__,
                                         'size': list(self.size)})
        except Exception:
            _count('is_success-contract-error', 'skipped')
        return r
    sc.StabilizerCode.is_success = is_success


def install_probability():
    import panqec.error_models._pauli_error_model as pem
    cls = pem.PauliErrorModel
    orig = cls.probability_distribution

    def probability_distribution(self, code, error_rate):
        r = orig(self, code, error_rate)
        try:
            T = np.stack([np.asarray(x, dtype=float) for x in r], axis=1)
            _count('probability')
            if T.shape != (code.n, 4) or np.any(T < 0) or \
                    np.max(np.abs(T.sum(axis=1) - 1)) > 1e-12:
                _viol('probability', 'table not a per-qubit distribution',
                      {'code': type(code).__name__, 'p': error_rate})
            rx, ry, rz = self.direction
            ref = sorted([error_rate * rx, error_rate * ry, error_rate * rz])
            for i in (0, code.n - 1):
                if code.n and np.max(np.abs(np.sort(T[i, 1:]) - ref)) > 1e-15:
                    _viol('probability', 'per-qubit X/Y/Z probabilities are '
                          'not a permutation of p*(r_x,r_y,r_z)',
                          {'code': type(code).__name__, 'p': error_rate})
                    break
        except Exception:
            _count('probability-contract-error', 'skipped')
        return r
    cls.probability_distribution = probability_distribution


def install_run_once():
    import panqec.simulation._direct_simulation as ds
    import panqec.simulation as sim
    orig = ds.run_once

    def run_once(*a, **kw):
        r = orig(*a, **kw)
        code = a[0] if a else kw['code']
        try:
            n = code.n
            H = gf2.pack_rows(code.stabilizer_matrix)
            Lx = gf2.pack_rows(code.logicals_x)
            Lz = gf2.pack_rows(code.logicals_z)
            e = gf2.pack(r['error'])
            c = gf2.pack(r['correction'])
            _count('run_once')
            if [int(x) for x in r['syndrome']] != gf2.syndrome(H, e, n):
                _viol('run_once', 'syndrome != syndrome(error)')
            resid = e ^ c
            eff = [gf2.symp(l, resid, n) for l in Lz] + \
                [gf2.symp(l, resid, n) for l in Lx]
            cs = not any(gf2.syndrome(H, resid, n))
            if [int(x) for x in r['effective_error']] != eff:
                _viol('run_once', 'effective_error mismatch',
                      {'code': type(code).__name__})
            if bool(r['codespace']) != cs or \
                    bool(r['success']) != (cs and not any(eff)):
                _viol('run_once', 'codespace/success mismatch',
                      {'code': type(code).__name__})
        except Exception:
            _count('run_once-contract-error', 'skipped')
        return r
    ds.run_once = run_once
    sim.run_once = run_once


INSTALLERS = {'bs_prod': install_bs_prod, 'is_success': install_is_success,
              'probability': install_probability,
              'run_once': install_run_once}


def pytest_configure(config):
    sel = [s for s in os.environ.get('PV_CONTRACTS', '').split(',') if s]
    for s in sel:
        INSTALLERS[s]()
    STATS['installed'] = sel


def pytest_sessionfinish(session, exitstatus):
    path = os.environ.get('PV_CONTRACT_OUT')
    if path:
        STATS['pytest_exitstatus'] = int(exitstatus)
        with open(path, 'w') as f:
            json.dump(STATS, f)


def run_contract_suite(out, contract, mech):
    """Called from a check's thorough tier (inside a shard process)."""
    import subprocess
    import tempfile
    from pv.common import child_env, PYTHON, PANQEC_SRC, VERIF
    work = os.environ.get('PV_WORK') or tempfile.gettempdir()
    res = os.path.join(work, f'contracts-{contract}-{os.getpid()}.json')
    env = child_env()
    env['PV_CONTRACTS'] = contract
    env['PV_CONTRACT_OUT'] = res
    p = subprocess.run(
        [PYTHON, '-m', 'pytest', '-q', '--no-header', '-p',
         'no:cacheprovider', '-p', 'pv.pytest_contracts', '--timeout=900',
         '--continue-on-collection-errors', 'tests'],
        cwd=PANQEC_SRC, env=env, capture_output=True, text=True,
        timeout=1500)
    if not os.path.exists(res):
        out.inconclusive_case(f'contract suite {contract}: no result file; '
                              f'{p.stdout[-300:]} {p.stderr[-300:]}')
        return
    with open(res) as f:
        st = json.load(f)
    os.unlink(res)
    ev = st['evaluations'].get(contract, 0)
    out.count(f'contract_evaluations_in_repo_tests', ev)
    out.case({'k': 'contract-mode-over-repo-tests', 'contract': contract},
             ev > 0, n=max(ev, 1), distinct=1,
             sample={'contract': contract, 'evaluations': ev,
                     'skipped': st['skipped']})
    if ev == 0:
        out.inconclusive_case(f'contract {contract} never evaluated during '
                              'the repository tests')
    for v in st['violations']:
        out.violation(f'{mech}/contract-over-repo-tests/{contract}',
                      v['what'], v.get('witness') or {})
