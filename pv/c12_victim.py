"""Victim-side helpers for C12 (run inside the process whose batch run is
stopped).  The system under test -- BatchSimulation, DirectSimulation,
load_results, save_json, load_json -- is the real panqec code; this module
only provides identifiable trials, save snapshots and fault injection.
"""
from __future__ import annotations

import gzip
import io
import json
import os
import shutil
import sys

import numpy as np

STATE = {'incarnation': 0, 'counter': 0, 'k': 9}


def register():
    """Tracer noise + null decoder: every recorded effective_error spells a
    process-wide unique trial id (6 bits incarnation, 12 bits counter)."""
    from panqec.config import ERROR_MODELS, DECODERS
    from panqec.error_models import BaseErrorModel
    from panqec.decoders import BaseDecoder

    class TracerErrorModel(BaseErrorModel):
        def __init__(self, tag=0, extra=None):
            self.tag = tag
            self.extra = {} if extra is None else dict(extra)

        @property
        def label(self):
            return f'Tracer {self.tag}'

        @property
        def params(self):
            return {'tag': self.tag, 'extra': self.extra}

        def generate(self, code, error_rate, rng=None):
            k = code.logicals_x.shape[0]
            tid = (STATE['incarnation'] << 12) | STATE['counter']
            STATE['counter'] += 1
            e = np.zeros(2 * code.n, dtype=np.uint8)
            for j in range(18):
                if (tid >> j) & 1:
                    # bit j < 9: X-type action on logical j (logical X_j);
                    # bit 9+j: Z-type action (logical Z_j)
                    L = code.logicals_x if j < 9 else code.logicals_z
                    e ^= L[j % 9].astype(np.uint8)
            return e

        def probability_distribution(self, code, error_rate):
            n = code.n
            return (np.ones(n), np.zeros(n), np.zeros(n), np.zeros(n))

    class NullDecoder(BaseDecoder):
        label = 'Null decoder'
        allowed_codes = None

        @property
        def params(self):
            return {}

        def decode(self, syndrome, **kw):
            return np.zeros(2 * self.code.n, dtype=np.uint)

    ERROR_MODELS['TracerErrorModel'] = TracerErrorModel
    DECODERS['NullDecoder'] = NullDecoder


def trial_id(effective_error):
    """Inverse of the tracer: 18 bits from a 2k=18(+) bit effective error of
    an XCube(2,2,2)-like code (k=9): first k bits X-type, next k Z-type."""
    ee = [int(x) for x in effective_error]
    k = len(ee) // 2
    tid = 0
    for j in range(9):
        if ee[j]:
            tid |= 1 << j
        if ee[k + j]:
            tid |= 1 << (9 + j)
    return tid


def tracer_spec(rates, sizes=((2, 2, 2),), tag=0, models=None):
    return {'ranges': {
        'label': 'c12',
        'code': {'name': 'XCubeCode', 'parameters': [
            {'L_x': s[0], 'L_y': s[1], 'L_z': s[2]} for s in sizes]},
        'error_model': {'name': 'TracerErrorModel',
                        'parameters': models or [{'tag': tag}]},
        'decoder': {'name': 'NullDecoder', 'parameters': {}},
        'error_rate': list(rates)}}


def real_spec(rates, sizes=((3, 3),), models=None):
    return {'ranges': {
        'label': 'c12real',
        'code': {'name': 'Toric2DCode', 'parameters': [
            {'L_x': s[0], 'L_y': s[1]} for s in sizes]},
        'error_model': {'name': 'PauliErrorModel', 'parameters': models or [
            {'r_x': 1 / 3, 'r_y': 1 / 3, 'r_z': 1 / 3}]},
        'decoder': {'name': 'MatchingDecoder', 'parameters': {}},
        'error_rate': list(rates)}}


def typed_spec(spec, mode):
    """The same specification with its numbers held as another numeric type
    (what a script that builds sizes with np.arange / rates with np.linspace,
    or writes 0 instead of 0.0, hands to read_input_dict)."""
    import copy
    if not mode:
        return spec
    sp = copy.deepcopy(spec)
    rg = sp['ranges']

    def conv(v):
        if isinstance(v, bool) or not isinstance(v, (int, float)):
            return v
        if mode == 'numpy':
            return np.int64(v) if isinstance(v, int) else np.float64(v)
        if mode == 'float':
            return float(v)
        if mode == 'int':
            return int(v) if float(v).is_integer() else v
        return v
    for prm in rg['code']['parameters']:
        for k in list(prm):
            if mode != 'float':          # lattice sizes stay integral
                prm[k] = conv(prm[k])
    for prm in rg['error_model']['parameters']:
        for k in list(prm):
            prm[k] = conv(prm[k])
    if mode == 'numpy':
        rg['error_rate'] = list(np.array(rg['error_rate'], dtype=float))
    return sp


class SaveSnapshots:
    """Wraps save_json where BatchSimulation looks it up; after every
    COMPLETED save the file is copied to <dir>/<k> (the last completed
    save).  Also the place where torn writes are armed."""

    def __init__(self, snap_dir, torn=None):
        import panqec.simulation._batch_simulation as bs
        self.bs = bs
        self.orig = bs.save_json
        self.dir = snap_dir
        self.count = 0
        self.torn = torn            # dict(save_index, klass) or None
        os.makedirs(snap_dir, exist_ok=True)
        me = self

        def save_json(data, file):
            idx = me.count
            if me.torn is not None and idx == me.torn['save_index']:
                arm_torn_write(me.orig, data, file, me.torn)
            r = me.orig(data, file)
            me.count += 1
            # snapshot atomically: a SIGKILL may land inside this copy
            dst = os.path.join(me.dir, str(idx))
            shutil.copyfile(file, dst + '.part')
            os.replace(dst + '.part', dst)
            return r
        bs.save_json = save_json

    def close(self):
        self.bs.save_json = self.orig


# ---------------------------------------------------------------------------
# torn writes (process death inside a checkpoint write)
# ---------------------------------------------------------------------------

class TornFile:
    """Raw binary file for the write that is to be torn.  The real path is
    created / truncated at once (as open(path, 'w') does); the bytes are
    held back until close(), when the total is known: then the first
    `limit(total)` bytes are put on disk, fsynced, and the process is killed
    with os._exit.  Nothing else runs between the first write and the close
    of a save_json call, so the on-disk state is exactly that of a process
    dying after `limit` bytes of the stream had reached the file."""

    def __init__(self, path, klass, report):
        self.path = path
        self.f = io.open(path, 'wb', buffering=0)     # truncates
        self.buf = bytearray()
        self.klass = klass
        self.report = report
        self._closed = False

    def write(self, b):
        self.buf += bytes(b)
        return len(b)

    def close(self):
        if self._closed:
            return
        self._closed = True
        raw = bytes(self.buf)
        payload = raw
        if raw[:2] == b'\x1f\x8b':
            try:
                payload = gzip.decompress(raw)
            except Exception:
                payload = b''
        limit = max(0, min(offsets_for(len(raw), self.klass, payload),
                           len(raw)))
        self.f.write(raw[:limit])
        os.fsync(self.f.fileno())
        with open(self.report + '.plan', 'w') as r:
            json.dump({'total': len(raw), 'limit': limit,
                       'klass': self.klass,
                       'path': os.path.basename(self.path)}, r)
        with open(self.report, 'w') as r:
            r.write('died-in-write')
        os._exit(137)

    def flush(self):
        pass

    def __enter__(self):
        return self

    def __exit__(self, *a):
        self.close()

    def fileno(self):
        return self.f.fileno()

    def tell(self):
        return len(self.buf)

    def writable(self):
        return True

    def readable(self):
        return False

    def seekable(self):
        return False

    @property
    def closed(self):
        return self._closed

    name = ''
    mode = 'wb'


class TornGzip(gzip.GzipFile):
    """GzipFile over a TornFile that also closes it (as gzip.open would
    close the file it opened itself)."""

    def close(self):
        raw = self.fileobj
        try:
            super().close()
        finally:
            if raw is not None:
                raw.close()


def offsets_for(total, klass, payload=b''):
    """Byte budget for an offset class of a write of `total` bytes."""
    if klass == 'zero':
        return 0
    if klass == 'one':
        return 1
    if klass == 'tenth':
        return max(1, total // 10)
    if klass == 'half':
        return total // 2
    if klass == 'ninety':
        return (total * 9) // 10
    if klass == 'all-but-last':
        return total - 1
    if klass == 'complete-unclosed':
        return total
    if klass == 'record-boundary':
        # end of the first top-level record of the JSON list
        try:
            txt = payload.decode()
            dec = json.JSONDecoder()
            i = txt.index('[') + 1
            _, end = dec.raw_decode(txt, i)
            return end
        except Exception:
            return total // 3
    if klass == 'gz-header':
        return 4
    if klass == 'gz-after-header':
        return 10
    if klass == 'gz-before-trailer':
        return max(11, total - 8)
    if klass == 'gz-in-trailer':
        return total - 3
    raise ValueError(klass)


def arm_torn_write(real_save_json, data, file, torn):
    """Substitute `open` / `gzip.open` (and os.replace) in panqec.utils so
    that the REAL save_json, writing the REAL file, dies inside this write."""
    import panqec.utils as utils
    report = torn['report']
    target = torn.get('target', 'final')
    klass = torn['klass']
    real_open = io.open
    real_gzip_open = gzip.open
    real_replace = os.replace

    def want(path):
        """Tear the write to the final file, or to whatever sibling file an
        atomic implementation writes first."""
        path = os.path.abspath(os.fspath(path))
        if target == 'final':
            return path == os.path.abspath(file)
        return os.path.dirname(path) == \
            os.path.dirname(os.path.abspath(file)) and \
            path != os.path.abspath(file) and \
            os.path.basename(path).startswith(os.path.basename(file))

    def torn_open(path, mode='r', *a, **kw):
        if 'w' in mode and want(path):
            raw_f = TornFile(path, klass, report)
            if 'b' in mode:
                return raw_f
            return io.TextIOWrapper(raw_f, write_through=True,
                                    encoding=kw.get('encoding') or 'utf-8')
        return real_open(path, mode, *a, **kw)

    class GzipProxy:
        def __getattr__(self, name):
            return getattr(gzip, name)

        @staticmethod
        def open(path, mode='rb', *a, **kw):
            if 'w' in mode and want(path):
                raw_f = TornFile(path, klass, report)
                return TornGzip(filename=os.fspath(path), fileobj=raw_f,
                                mode='wb')
            return real_gzip_open(path, mode, *a, **kw)

    class OsProxy:
        """Only consulted if save_json renames a temp file into place."""

        def __getattr__(self, name):
            return getattr(os, name)

        @staticmethod
        def replace(src, dst, *a, **kw):
            if klass == 'before-replace':
                with open(report, 'w') as r:
                    r.write('died-before-replace')
                os._exit(137)
            r_ = real_replace(src, dst, *a, **kw)
            with open(report, 'w') as r:
                r.write('died-after-replace')
            os._exit(137)
            return r_

        rename = replace

    if klass in ('before-replace', 'after-replace'):
        utils.os = OsProxy()
    else:
        utils.open = torn_open
        utils.gzip = GzipProxy()


# ---------------------------------------------------------------------------
# one round = one process incarnation running the batch on the output file
# ---------------------------------------------------------------------------

class _ViaRunFileDone(Exception):
    pass


class Stop(BaseException):
    """Hard stop between trials (not a KeyboardInterrupt: no handler in
    panqec may swallow it) -- models the process vanishing at that point."""


def run_round(spec, out_file, target, save_frequency, incarnation,
              snap_dir=None, stop_after_trials=None, stop_kind='kill',
              torn=None, line_failpoint=None, spec_types=None,
              via_run_file=False, keep=None, poll=False):
    """Build a fresh BatchSimulation from the spec on out_file and run it to
    `target` trials.  Returns dict(status, saves, events...)."""
    import contextlib
    from panqec.simulation import read_input_dict
    from panqec.simulation import _direct_simulation as ds
    register()
    STATE['incarnation'] = incarnation
    STATE['counter'] = 0
    snaps = SaveSnapshots(snap_dir, torn) if snap_dir else None
    info = {'status': 'completed', 'exception': None}
    orig_run = ds.DirectSimulation.run
    calls = {'n': 0}
    if stop_after_trials is not None:
        def run(self, n_runs):
            if calls['n'] >= stop_after_trials:
                if stop_kind == 'kill':
                    raise Stop()
                raise KeyboardInterrupt('injected between trials')
            calls['n'] += 1
            return orig_run(self, n_runs)
        ds.DirectSimulation.run = run
    fp = None
    try:
        with contextlib.redirect_stdout(io.StringIO()):
            if via_run_file:
                # the entry point the CLI tasks use: specification read from
                # a file, progress written to a log file kept between runs
                from panqec.simulation import _batch_simulation as _bs
                inp = out_file + '.input.json'
                with open(inp, 'w') as f:
                    json.dump(spec, f)
                _bs.run_file(inp, out_file, target,
                             log_file=out_file + '.progress.log',
                             verbose=False)
                raise _ViaRunFileDone()
            key = json.dumps(spec, sort_keys=True, default=str)
            if keep is not None and keep.get('key') == key and \
                    keep.get('batch') is not None:
                # the session goes on with the objects it already has (a
                # notebook calling run() again after a pause)
                if keep.get('mode') == 'sims':
                    # the same simulation objects in a new batch
                    from panqec.simulation import BatchSimulation
                    old = keep['batch']
                    batch = BatchSimulation(
                        out_file, save_frequency=save_frequency,
                        verbose=False)
                    for sm in old._simulations:
                        batch.append(sm)
                else:
                    batch = keep['batch']
                    batch.save_frequency = save_frequency
                info['reused_objects'] = True
            else:
                batch = read_input_dict(typed_spec(spec, spec_types),
                                        out_file, verbose=False,
                                        save_frequency=save_frequency)
            if keep is not None:
                keep['batch'], keep['key'] = batch, key
            if poll:
                # a progress display: live results are read at every update
                def hook(n_trials, _b=batch):
                    for sm in _b._simulations:
                        sm.get_results()
                batch.on_update = hook
                batch.update_frequency = 1
            if line_failpoint is not None:
                fp = LineFailpoint(line_failpoint)
                fp.start()
            try:
                batch.run(target)
            finally:
                if fp is not None:
                    fp.stop()
                    info['line_events'] = fp.count
                    info['fired_at'] = fp.fired_at
    except _ViaRunFileDone:
        pass
    except Stop:
        info['status'] = 'stopped'
    except KeyboardInterrupt:
        info['status'] = 'interrupt-propagated'
    except BaseException as e:           # noqa: the restart must not raise
        import traceback
        info['status'] = 'raised'
        info['exception'] = f'{type(e).__name__}: {e}'
        info['traceback'] = traceback.format_exc()[-1500:]
    finally:
        ds.DirectSimulation.run = orig_run
        if snaps:
            snaps.close()
            info['saves'] = snaps.count
    return info


class LineFailpoint:
    """sys.monitoring LINE events inside the simulation / checkpoint code;
    raises KeyboardInterrupt at event number `at` (None = just count)."""

    TOOL = 4
    FILES = ('_batch_simulation.py', '_direct_simulation.py',
             '_base_simulation.py')
    UTIL_FUNCS = ('save_json', 'load_json')

    def __init__(self, at):
        self.at = at
        self.count = 0
        self.fired_at = None
        self.locations = set()

    def relevant(self, code):
        fn = code.co_filename
        if '/panqec/' not in fn:
            return False
        base = os.path.basename(fn)
        if base in self.FILES:
            return True
        return base == 'utils.py' and code.co_name in self.UTIL_FUNCS

    def start(self):
        mon = sys.monitoring
        mon.use_tool_id(self.TOOL, 'pv-c12')
        me = self

        def on_line(code, line):
            if not me.relevant(code):
                return mon.DISABLE
            me.count += 1
            me.locations.add((os.path.basename(code.co_filename),
                              code.co_name, line))
            if me.at is not None and me.count == me.at and \
                    me.fired_at is None:
                me.fired_at = [os.path.basename(code.co_filename),
                               code.co_name, line]
                raise KeyboardInterrupt('injected at line event')
            return None
        mon.register_callback(self.TOOL, mon.events.LINE, on_line)
        mon.set_events(self.TOOL, mon.events.LINE)
        mon.restart_events()

    def stop(self):
        mon = sys.monitoring
        mon.set_events(self.TOOL, 0)
        mon.register_callback(self.TOOL, mon.events.LINE, None)
        mon.free_tool_id(self.TOOL)


def read_results(path):
    """Own reader of a results file (never panqec's load_json)."""
    if not os.path.exists(path):
        return None
    with open(path, 'rb') as f:
        raw = f.read()
    if raw[:2] == b'\x1f\x8b':     # by content, never by name
        raw = gzip.decompress(raw)
    return json.loads(raw.decode())


def child_main(argv):
    """Entry for child-process rounds: argv[0] = JSON job file."""
    with open(argv[0]) as f:
        job = json.load(f)
    info = run_round(job['spec'], job['out_file'], job['target'],
                     job['save_frequency'], job['incarnation'],
                     snap_dir=job.get('snap_dir'),
                     stop_after_trials=job.get('stop_after_trials'),
                     stop_kind=job.get('stop_kind', 'kill'),
                     torn=job.get('torn'))
    with open(job['info_file'], 'w') as f:
        json.dump(info, f)
    if job.get('announce'):
        print('ROUND-DONE', flush=True)
    return 0


if __name__ == '__main__':
    sys.exit(child_main(sys.argv[1:]))
