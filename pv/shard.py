import sys
from pv.common import shard_main

if __name__ == '__main__':
    sys.exit(shard_main(sys.argv[1:]))
