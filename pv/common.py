"""Shared harness: tasks, shards, verdicts, evidence, known findings, replays.

A check module (pv/checks/cXX.py) provides

    PROPERTY = "C01"
    LEVEL    = "exploration" | "fault_enumeration"
    RULE     = "<how cases are generated and what makes one non-trivial>"
    ASSUMPTIONS = [...]
    REQUIRED_COUNTERS = ["name", ...]      # anti-vacuity: each must be > 0
    def plan(tier, seed) -> list[dict]     # JSON-able task descriptors,
                                           # each may carry "cost" (relative)
    def run_task(task, out) -> None        # executed in a shard process;
                                           # reports through `out` (a Shard)
    def classify(violation) -> str | None  # name of a known-finding key
    def finalize(run, tier, seed) -> None  # optional, after all shards

The deciding step is always an oracle inside run_task looking at values the
real panqec code returned; this file never decides anything about panqec.
"""
from __future__ import annotations

import hashlib
import importlib
import json
import os
import shutil
import subprocess
import sys
import tempfile
import time
import traceback
from typing import Any, Dict, List, Optional

VERIF = os.path.dirname(os.path.dirname(os.path.abspath(__file__)))
PANQEC_SRC = os.environ.get('PANQEC_SRC', '/repo')
PYTHON = '/venv/bin/python'
NCPU = int(os.environ.get('VERIF_JOBS', '16'))


def jsonable(x: Any) -> Any:
    """Best-effort conversion of witnesses / descriptors to JSON types."""
    import numpy as np
    if isinstance(x, dict):
        return {str(k): jsonable(v) for k, v in x.items()}
    if isinstance(x, (list, tuple, set, frozenset)):
        return [jsonable(v) for v in x]
    if isinstance(x, np.ndarray):
        return jsonable(x.tolist())
    if isinstance(x, (np.integer,)):
        return int(x)
    if isinstance(x, (np.floating,)):
        return float(x)
    if isinstance(x, (np.bool_,)):
        return bool(x)
    if isinstance(x, float):
        if x != x:
            return 'nan'
        if x in (float('inf'), float('-inf')):
            return 'inf' if x > 0 else '-inf'
        return x
    if isinstance(x, (str, int, bool)) or x is None:
        return x
    if isinstance(x, bytes):
        return x.hex()
    return repr(x)


def panqec_frame(exc: BaseException) -> Optional[str]:
    """'file.py:function' of the innermost traceback frame that lies inside
    the panqec source tree (or a third-party library called from it), or None
    when the exception was raised by harness code alone."""
    tb = traceback.extract_tb(exc.__traceback__)
    src = os.path.realpath(PANQEC_SRC) + os.sep
    inner = None
    for f in tb:
        if os.path.realpath(f.filename).startswith(src + 'panqec' + os.sep):
            inner = f'{os.path.basename(f.filename)}:{f.name}'
    return inner


def digest(x: Any) -> str:
    s = json.dumps(jsonable(x), sort_keys=True, separators=(',', ':'))
    return hashlib.blake2b(s.encode(), digest_size=8).hexdigest()


class Shard:
    """Collector used inside a shard process (and in-process for replays)."""

    MAX_SAMPLES = 6
    MAX_VIOLATIONS = 200
    MAX_PER_MECH = 4

    def __init__(self) -> None:
        self.evaluations = 0
        self.cases: Dict[str, int] = {}   # digest -> #distinct nontrivial
        self.counters: Dict[str, float] = {}
        self.samples: List[Any] = []
        self.violations: List[dict] = []
        self.violation_count = 0
        self.by_mech: Dict[str, int] = {}
        self.inconclusive: List[str] = []
        self.notes: List[str] = []
        self.extra: Dict[str, Any] = {}

    # -- coverage -----------------------------------------------------
    def case(self, descriptor: Any, nontrivial: bool = True,
             sample: Any = None, n: int = 1, distinct: int = 1) -> None:
        """Register `n` executed evaluations under one descriptor, of which
        `distinct` are pairwise distinct non-trivial cases (default: the
        descriptor itself is the one distinct case)."""
        self.evaluations += n
        h = digest(descriptor)
        self.cases[h] = max(self.cases.get(h, 0),
                            int(distinct) if nontrivial else 0)
        if sample is not None and len(self.samples) < self.MAX_SAMPLES:
            self.samples.append(jsonable(sample))

    def count(self, name: str, n: float = 1) -> None:
        self.counters[name] = self.counters.get(name, 0) + n

    def sample(self, s: Any) -> None:
        if len(self.samples) < self.MAX_SAMPLES:
            self.samples.append(jsonable(s))

    # -- verdicts -----------------------------------------------------
    def violation(self, mechanism: str, what: str, witness: Any) -> None:
        """mechanism: short machine tag describing *what failed where*
        (used by classify(); never contains seeds or random values)."""
        self.violation_count += 1
        self.by_mech[mechanism] = self.by_mech.get(mechanism, 0) + 1
        if (self.by_mech[mechanism] <= self.MAX_PER_MECH
                and len(self.violations) < self.MAX_VIOLATIONS):
            self.violations.append({
                'mechanism': mechanism, 'what': what,
                'witness': jsonable(witness)})

    def inconclusive_case(self, reason: str) -> None:
        if len(self.inconclusive) < 50:
            self.inconclusive.append(reason)
        self.count('inconclusive_cases')

    def dump(self) -> dict:
        return {
            'evaluations': self.evaluations, 'cases': self.cases,
            'counters': self.counters, 'samples': self.samples,
            'violations': self.violations,
            'violation_count': self.violation_count,
            'by_mech': self.by_mech,
            'inconclusive': self.inconclusive, 'notes': self.notes,
            'extra': jsonable(self.extra),
        }


def load_known() -> List[dict]:
    p = os.path.join(VERIF, 'known_findings.json')
    if not os.path.exists(p):
        return []
    with open(p) as f:
        return json.load(f)['findings']


class Run:
    """Aggregates shard results, writes evidence, decides the exit code."""

    def __init__(self, module, tier: str, seed: int) -> None:
        self.module = module
        self.pid = module.PROPERTY
        self.tier = tier
        self.seed = seed
        self.t0 = time.time()
        self.evaluations = 0
        self.cases: Dict[str, int] = {}
        self.counters: Dict[str, float] = {}
        self.samples: List[Any] = []
        self.violations: List[dict] = []
        self.violation_count = 0
        self.by_mech: Dict[str, int] = {}
        self.inconclusive: List[str] = []
        self.notes: List[str] = []
        self.extra: Dict[str, Any] = {}
        self.shards_ok = 0
        self.shards_bad = 0

    def absorb(self, d: dict) -> None:
        self.evaluations += d['evaluations']
        for h, nt in d['cases'].items():
            self.cases[h] = max(self.cases.get(h, 0), int(nt))
        for k, v in d['counters'].items():
            self.counters[k] = self.counters.get(k, 0) + v
        for s in d['samples']:
            if len(self.samples) < 8:
                self.samples.append(s)
        self.violations += d['violations']
        self.violation_count += d['violation_count']
        for k, v in d.get('by_mech', {}).items():
            self.by_mech[k] = self.by_mech.get(k, 0) + v
        self.inconclusive += d['inconclusive']
        self.notes += d['notes']
        for k, v in d.get('extra', {}).items():
            if isinstance(v, list):
                self.extra.setdefault(k, [])
                self.extra[k] += v
            elif isinstance(v, (int, float)) and not isinstance(v, bool):
                self.extra[k] = self.extra.get(k, 0) + v
            else:
                self.extra[k] = v

    # -----------------------------------------------------------------
    def finish(self) -> int:
        mod = self.module
        known = [k for k in load_known() if k['property'] == self.pid]
        known_keys = {k['key']: k for k in known if k['status'] == 'known'}
        # The mechanism tag is computed by the check at detection time and
        # is the unit of classification: all violations with one tag are the
        # same finding, so the per-mechanism storage cap loses nothing.
        new: List[dict] = []
        seen_known: Dict[str, Any] = {}
        new_mechs: Dict[str, int] = {}
        for v in self.violations:
            key = None
            if hasattr(mod, 'classify'):
                try:
                    key = mod.classify(v)
                except Exception:          # classifier bug => not known
                    key = None
            if key is not None and key in known_keys:
                seen_known.setdefault(key, {})[v['mechanism']] = \
                    self.by_mech.get(v['mechanism'], 1)
            else:
                new.append(v)
                new_mechs[v['mechanism']] = self.by_mech.get(
                    v['mechanism'], 1)
        seen_known = {k: sum(d.values()) for k, d in seen_known.items()}
        n_new = sum(new_mechs.values())
        overflow = 0

        os.makedirs(os.path.join(VERIF, 'replays'), exist_ok=True)
        lines: List[str] = []
        for key, n in sorted(seen_known.items()):
            lines.append(
                f"KNOWN-FINDING: property={self.pid} {key}: "
                f"{known_keys[key]['what']} (seen {n}x in this run)")
        replay_paths = []
        seen_mech = {}
        for v in new:
            m = v['mechanism']
            seen_mech[m] = seen_mech.get(m, 0) + 1
            if seen_mech[m] > 3:          # at most 3 replay files/mechanism
                continue
            h = digest(v)
            path = os.path.join(VERIF, 'replays', f'{self.pid}-{h}.json')
            with open(path, 'w') as f:
                json.dump({'property': self.pid, 'tier': self.tier,
                           'seed': self.seed, **v}, f, indent=1)
            replay_paths.append(path)
            lines.append(f"VIOLATION property={self.pid} replay={path}")
            lines.append(f"  mechanism={m}: {v['what']}")
        if overflow > 0 and new:
            lines.append(f"  (+{overflow} further violations not stored)")

        # anti-vacuity
        missing = [c for c in getattr(mod, 'REQUIRED_COUNTERS', [])
                   if self.counters.get(c, 0) <= 0]
        distinct_nt = sum(int(v) for v in self.cases.values())
        inconclusive_reason = None
        if self.shards_bad:
            inconclusive_reason = f'{self.shards_bad} shard(s) died/timed out'
        elif self.counters.get('harness_errors', 0) > 0:
            inconclusive_reason = (f"{int(self.counters['harness_errors'])} "
                                   'task(s) ended in a harness error')
        elif missing:
            inconclusive_reason = f'monitor counters at zero: {missing}'
        elif self.evaluations < 1 or distinct_nt < 2:
            inconclusive_reason = 'too few conclusive cases'

        wall = time.time() - self.t0
        coverage = {
            'evaluations': int(self.evaluations),
            'distinct_nontrivial': int(distinct_nt),
            'distinct_total': len(self.cases),
            'rule': mod.RULE,
            'samples': self.samples[:8] or ['<none>'],
            'counters': {k: (int(v) if float(v).is_integer() else v)
                         for k, v in sorted(self.counters.items())},
            'shards_ok': self.shards_ok, 'shards_failed': self.shards_bad,
            'inconclusive_cases': self.inconclusive[:20],
            'known_findings_seen': seen_known,
            'new_violations': n_new,
            'violations_by_mechanism': dict(self.by_mech),
            'notes': self.notes[:20],
        }
        for k, v in self.extra.items():
            if isinstance(v, list):
                v = v[:30]
            coverage[k] = v
        if getattr(mod, 'EXHAUSTIVE', None):
            coverage['exhaustive'] = bool(mod.EXHAUSTIVE(self.tier)) \
                if callable(mod.EXHAUSTIVE) else bool(mod.EXHAUSTIVE)
            coverage['exhaustive_scope'] = getattr(mod, 'EXHAUSTIVE_SCOPE', '')
        verdict = ('violated' if new else
                   'inconclusive' if inconclusive_reason else 'held')
        coverage['verdict'] = verdict
        if inconclusive_reason:
            coverage['inconclusive_reason'] = inconclusive_reason
        evidence = {
            'property_id': self.pid, 'tier': self.tier, 'seed': self.seed,
            'level': mod.LEVEL, 'coverage': jsonable(coverage),
            'assumptions': list(getattr(mod, 'ASSUMPTIONS', [])),
            'wall_s': round(wall, 2),
            'violations': n_new,
        }
        os.makedirs(os.path.join(VERIF, 'evidence'), exist_ok=True)
        ev_path = os.path.join(VERIF, 'evidence', f'{self.pid}.json')
        tmp = ev_path + f'.tmp{os.getpid()}'
        with open(tmp, 'w') as f:
            json.dump(evidence, f, indent=1, sort_keys=True)
        os.replace(tmp, ev_path)

        for ln in lines:
            print(ln)
        cstr = ' '.join(f'{k}={v}' for k, v in
                        sorted(coverage['counters'].items()))
        print(f"[{self.pid} {self.tier} seed={self.seed}] verdict={verdict} "
              f"evaluations={self.evaluations} distinct_nontrivial="
              f"{distinct_nt} shards={self.shards_ok}+{self.shards_bad}bad "
              f"wall={wall:.1f}s\n  counters: {cstr}")
        if new:
            return 1
        if inconclusive_reason:
            print(f"INCONCLUSIVE property={self.pid} {inconclusive_reason}")
            return 2
        return 0


# ---------------------------------------------------------------------------
# shard execution
# ---------------------------------------------------------------------------

def _pack(tasks: List[dict], nbins: int) -> List[List[dict]]:
    """Greedy longest-first packing by task['cost'] (default 1)."""
    bins: List[List[dict]] = [[] for _ in range(nbins)]
    load = [0.0] * nbins
    for t in sorted(tasks, key=lambda t: -float(t.get('cost', 1))):
        i = load.index(min(load))
        bins[i].append(t)
        load[i] += float(t.get('cost', 1))
    return [b for b in bins if b]


def child_env() -> dict:
    env = dict(os.environ)
    env['PYTHONPATH'] = f'{VERIF}:{PANQEC_SRC}'
    env.setdefault('PYTHONHASHSEED', '0')
    env['OMP_NUM_THREADS'] = '1'
    env['OPENBLAS_NUM_THREADS'] = '1'
    env['MKL_NUM_THREADS'] = '1'
    env['MPLBACKEND'] = 'Agg'
    env['PANQEC_DIR'] = env.get('PV_PANQEC_DIR', tempfile.gettempdir())
    return env


def run_shards(run: Run, tasks: List[dict], timeout_s: float,
               bins_per_cpu: int = 3) -> None:
    if not tasks:
        return
    work = os.path.join(VERIF, '.work', f'{run.pid}-{os.getpid()}')
    os.makedirs(work, exist_ok=True)
    try:
        batches = _pack(tasks, max(1, min(len(tasks), NCPU * bins_per_cpu)))
        pending = list(enumerate(batches))
        running: List[tuple] = []
        env = child_env()
        env['PV_WORK'] = work
        while pending or running:
            while pending and len(running) < NCPU:
                i, batch = pending.pop(0)
                inp = os.path.join(work, f'in{i}.json')
                outp = os.path.join(work, f'out{i}.json')
                with open(inp, 'w') as f:
                    json.dump({'module': run.module.__name__,
                               'tasks': batch}, f)
                logp = os.path.join(work, f'log{i}.txt')
                lf = open(logp, 'w')
                p = subprocess.Popen(
                    [PYTHON, '-m', 'pv.shard', inp, outp],
                    stdout=lf, stderr=subprocess.STDOUT, env=env,
                    cwd=work)
                running.append((p, i, outp, logp, lf, time.time()))
            time.sleep(0.05)
            still = []
            for (p, i, outp, logp, lf, t0) in running:
                rc = p.poll()
                if rc is None:
                    if time.time() - t0 > timeout_s:
                        p.kill()
                        p.wait()
                        lf.close()
                        run.shards_bad += 1
                        run.notes.append(f'shard {i} timed out '
                                         f'after {timeout_s}s')
                    else:
                        still.append((p, i, outp, logp, lf, t0))
                    continue
                lf.close()
                if rc == 0 and os.path.exists(outp):
                    with open(outp) as f:
                        run.absorb(json.load(f))
                    run.shards_ok += 1
                else:
                    run.shards_bad += 1
                    try:
                        with open(logp) as f:
                            tail = f.read()[-1500:]
                    except OSError:
                        tail = ''
                    run.notes.append(f'shard {i} exit {rc}: {tail}')
                    print(f'[harness] shard {i} exit {rc}\n{tail}',
                          file=sys.stderr)
            running = still
    finally:
        shutil.rmtree(work, ignore_errors=True)
        try:
            os.rmdir(os.path.join(VERIF, '.work'))
        except OSError:
            pass


def shard_main(argv: List[str]) -> int:
    inp, outp = argv
    with open(inp) as f:
        job = json.load(f)
    mod = importlib.import_module(job['module'])
    assert_panqec_source()
    out = Shard()
    for task in job['tasks']:
        try:
            mod.run_task(task, out)
        except Exception:
            # a harness error must never be folded into "held"
            out.inconclusive_case(
                f'harness error in task {json.dumps(task)[:300]}: '
                f'{traceback.format_exc()[-1200:]}')
            out.count('harness_errors')
    with open(outp + '.tmp', 'w') as f:
        json.dump(out.dump(), f)
    os.replace(outp + '.tmp', outp)
    return 0


def assert_panqec_source() -> None:
    import panqec
    src = os.path.realpath(PANQEC_SRC)
    got = os.path.realpath(os.path.dirname(panqec.__file__))
    if not got.startswith(src + os.sep):
        raise SystemExit(f'panqec imported from {got}, expected under {src}')


# ---------------------------------------------------------------------------
# entry
# ---------------------------------------------------------------------------

TIMEOUTS = {'quick': 600, 'thorough': 3600}


def main(argv: Optional[List[str]] = None) -> int:
    argv = list(sys.argv[1:] if argv is None else argv)
    if not argv:
        print('usage: check <Cxx> [quick|thorough] [--replay file]')
        return 2
    pid = argv.pop(0).upper()
    tier = os.environ.get('VERIF_TIER', 'quick')
    replay = None
    while argv:
        a = argv.pop(0)
        if a in ('quick', 'thorough'):
            tier = a
        elif a == '--replay':
            replay = argv.pop(0)
    seed = int(os.environ.get('VERIF_SEED', '0'))
    sys.path.insert(0, VERIF)
    mod = importlib.import_module(f'pv.checks.{pid.lower()}')
    assert_panqec_source()
    if replay:
        with open(replay) as f:
            v = json.load(f)
        out = Shard()
        mod.replay(v, out)
        print(json.dumps(out.dump()['violations'], indent=1)[:6000])
        print('replay: violated' if out.violation_count else
              'replay: not reproduced')
        return 1 if out.violation_count else 0
    run = Run(mod, tier, seed)
    tasks = mod.plan(tier, seed)
    run_shards(run, tasks, getattr(mod, 'SHARD_TIMEOUT', TIMEOUTS)[tier],
               getattr(mod, 'BINS_PER_CPU', 3))
    if hasattr(mod, 'finalize'):
        try:
            mod.finalize(run, tier, seed)
        except Exception:
            run.shards_bad += 1
            run.notes.append('finalize failed: ' + traceback.format_exc())
            print(traceback.format_exc(), file=sys.stderr)
    return run.finish()
