"""ONE table: per exported code class its supported size family (DESIGN §1.2),
the deformation names it offers and the axes its get_deformation accepts.

Sizes outside this table are never constructed by any check.
"""
from __future__ import annotations

import inspect
import itertools
from typing import Callable, Dict, Iterator, List, Optional, Tuple

CLASSES_2D = ['Toric2DCode', 'Planar2DCode', 'RotatedPlanar2DCode',
              'Color666PlanarCode', 'Color666ToricCode', 'Color488Code']
CLASSES_3D = ['Toric3DCode', 'Planar3DCode', 'RotatedPlanar3DCode',
              'RotatedToric3DCode', 'RhombicToricCode', 'RhombicPlanarCode',
              'HollowPlanar3DCode', 'HollowRhombicCode', 'XCubeCode',
              'Color3DCode']
ALL_CLASSES = CLASSES_2D + CLASSES_3D


def _ge(k):
    return lambda *L: all(x >= k for x in L)


def _even(*L):
    return all(x >= 2 and x % 2 == 0 for x in L)


SUPPORTED: Dict[str, Callable[..., bool]] = {
    # periodic direction of length 1 is degenerate
    'Toric2DCode': _ge(2),
    'Toric3DCode': _ge(2),
    'XCubeCode': _ge(2),
    # open boundaries
    'Planar2DCode': _ge(1),
    'RotatedPlanar2DCode': _ge(1),
    'Planar3DCode': _ge(1),
    'RotatedPlanar3DCode': _ge(1),
    'HollowPlanar3DCode': _ge(1),
    # source: "TODO: Get odd times odd to work"; test skipped "odd by odd"
    'RotatedToric3DCode': lambda x, y, z: (
        x >= 2 and y >= 2 and z >= 1 and not (x % 2 == 1 and y % 2 == 1)),
    # docstring "Must be even"
    'RhombicToricCode': _even,
    'RhombicPlanarCode': lambda x, y, z: x >= 2 and y >= 2 and z >= 1,
    'HollowRhombicCode': lambda x, y, z: x >= 2 and y >= 2 and z >= 3,
    # triangular patch: one size parameter; an explicit L_y is accepted and
    # ignored by the class, so (x, y != x) is the same lattice as (x, x)
    'Color666PlanarCode': lambda x, y=None: x >= 1 and (y is None or y >= 1),
    'Color3DCode': _even,
    # documented parameters "unit cells in x / y": rectangular included
    'Color488Code': _ge(1),
    'Color666ToricCode': _ge(1),
}


def dimension(cls_name: str) -> int:
    return 2 if cls_name in CLASSES_2D else 3


def get_class(cls_name: str):
    import panqec.codes
    return getattr(panqec.codes, cls_name)


def sizes_upto(cls_name: str, bound: int, minimum: int = 1
               ) -> Iterator[Tuple[int, ...]]:
    """All supported sizes with every component in [minimum, bound]."""
    dim = dimension(cls_name)
    ok = SUPPORTED[cls_name]
    rng = range(minimum, bound + 1)
    if cls_name == 'Color666PlanarCode':
        for x in rng:
            if ok(x):
                yield (x, x)
        return
    for L in itertools.product(rng, repeat=dim):
        if ok(*L):
            yield L


def deformations(cls_name: str) -> List[Tuple[Optional[str], dict]]:
    """[(None, {})] + every (name, kwargs) the class offers: for each name in
    deformation_names, the default call and one call per accepted axis."""
    cls = get_class(cls_name)
    out: List[Tuple[Optional[str], dict]] = [(None, {})]
    names = list(getattr(cls, 'deformation_names', []))
    sig = inspect.signature(cls.get_deformation)
    has_axis = 'deformation_axis' in sig.parameters
    axes = (['x', 'y'] if dimension(cls_name) == 2 else ['x', 'y', 'z'])
    for name in names:
        if has_axis:
            out.append((name, {}))          # default axis
            for ax in axes:
                out.append((name, {'deformation_axis': ax}))
        else:
            out.append((name, {}))
    return out


def default_axis(cls_name: str) -> Optional[str]:
    cls = get_class(cls_name)
    sig = inspect.signature(cls.get_deformation)
    p = sig.parameters.get('deformation_axis')
    return None if p is None else p.default


def build(cls_name: str, size, deformation: Optional[str] = None,
          kwargs: Optional[dict] = None):
    cls = get_class(cls_name)
    code = cls(*size)
    if deformation is not None:
        code.deform(deformation, **(kwargs or {}))
    return code


def n_estimate(cls_name: str, size) -> int:
    """Cheap upper estimate of n used only to bound enumeration sizes."""
    import math
    vol = math.prod(size)
    return {
        'Toric2DCode': 2, 'Planar2DCode': 2, 'RotatedPlanar2DCode': 1,
        'Color666PlanarCode': 3, 'Color666ToricCode': 6, 'Color488Code': 8,
        'Toric3DCode': 3, 'Planar3DCode': 3, 'RotatedPlanar3DCode': 3,
        'RotatedToric3DCode': 3, 'RhombicToricCode': 3,
        'RhombicPlanarCode': 3, 'HollowPlanar3DCode': 3,
        'HollowRhombicCode': 3, 'XCubeCode': 3, 'Color3DCode': 24,
    }[cls_name] * vol


def needle_sizes(cls_name: str, kmax: int, small=(2, 3)) -> List[Tuple[int, ...]]:
    """One long direction (up to kmax), small cross-section: the shapes where
    wrap-around, hole and boundary code paths degenerate."""
    dim = dimension(cls_name)
    ok = SUPPORTED[cls_name]
    out = []
    if cls_name == 'Color666PlanarCode':
        # explicit L_y different from L_x (ignored by the lattice)
        return [s for s in [(3, 1), (4, 1), (2, 5), (1, 4), (5, 2), (6, 1)]
                if max(s) <= kmax]
    for axis in range(dim):
        for c in small:
            for k in range(c + 1, kmax + 1):
                s = [c] * dim
                s[axis] = k
                if ok(*s) and tuple(s) not in out:
                    out.append(tuple(s))
    return out
