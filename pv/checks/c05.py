"""C05 — decoders return valid corrections reproducing the measured syndrome.

Monitor: every decoder construction and every decode() return value (or
exception) over a matrix of (decoder, code, size, code deformation, noise
direction / deformation, rate), judged by own GF(2) syndrome arithmetic.
One decoder object is reused inside a cell, as simulations do.  Cells whose
parameters can drive the native ldpc library out of bounds run in an isolated
child process so that a native abort is observed as a violation, not as a
dead harness.  Thorough tier adds a valgrind-memcheck run of a fixed small
workload (native heap monitor).
"""
from __future__ import annotations

import contextlib
import io
import json
import os
import re
import subprocess
import sys
import tempfile

import numpy as np

from pv import gf2
from pv import families as fam
from pv.common import panqec_frame, child_env, PYTHON, VERIF

PROPERTY = 'C05'
LEVEL = 'exploration'
TECHNIQUE = ('runtime monitoring: post-condition oracle on every decoder '
             'construction / decode() result (shape, binarity, own-arithmetic '
             'syndrome equality, trivial syndrome) with decoder reuse; '
             'process isolation + valgrind memcheck as native-memory monitor; '
             'termination monitor on logical steps (repeated loop state under '
             'sys.settrace) for the XCube path walker')
MANIFEST_TEXT = ('All 7 registered decoders are built on every code class '
                 'they declare (all 16 for BP-OSD/MBP), cubic and non-cubic '
                 'sizes, CSS and Clifford-deformed, 6 noise directions with '
                 'and without noise deformation, several rates; all valid '
                 'syndromes on tiny codes, random errors elsewhere; each '
                 'result is re-measured with an independent GF(2) oracle. '
                 'Thorough adds valgrind memcheck on the ldpc/pymatching '
                 'boundary.  Held on the executions observed only.')
MANIFEST_NOTE = ('Trusted: pv/gf2.py; ldpc and pymatching are exercised, not '
                 'trusted.  MBP runs with max_bp_iter<=3 on n<=13 codes (it is '
                 'a pure-Python O(iter*n*m) loop).  valgrind sees heap '
                 'red-zone violations only.')
RULE = ('case = one (decoder, class, size, code deformation, noise, rate) '
        'cell (evaluations count decode calls); distinct by cell descriptor; '
        'non-trivial = at least one non-zero syndrome was decoded in it')
ASSUMPTIONS = ['supported size family = pv/families.py',
               'complete decoders = MatchingDecoder, UnionFindDecoder, '
               'BeliefPropagationOSDDecoder (property statement)']
REQUIRED_COUNTERS = ['decoders_constructed', 'decode_calls',
                     'syndrome_equalities_checked', 'zero_syndrome_decodes',
                     'noncss_cells', 'rectangular_cells',
                     'isolated_children_ok',
                     'decode_calls_with_bool_syndrome',
                     'decoders_with_numpy_error_rate',
                     'cells_at_error_rate_0_or_1',
                     'union_find_cells_on_larger_tori',
                     'cells_with_non_default_decoder_options',
                     'same_process_deformation_variants']
SHARD_TIMEOUT = {'quick': 900, 'thorough': 3600}

COMPLETE = {'MatchingDecoder', 'UnionFindDecoder',
            'BeliefPropagationOSDDecoder'}

NOISES = {
    'depol': (1 / 3, 1 / 3, 1 / 3),
    'pureX': (1.0, 0.0, 0.0),
    'pureY': (0.0, 1.0, 0.0),
    'pureZ': (0.0, 0.0, 1.0),
    'biasZ3': (0.125, 0.125, 0.75),
    'biasZ30': (1 / 62, 1 / 62, 30 / 31),
    'skew': (0.5, 0.3, 0.2),
    'xy': (0.5, 0.5, 0.0),
}

SIZES_Q = {
    'Toric2DCode': [(2, 2), (3, 4), (5, 5)],
    'Planar2DCode': [(2, 2), (4, 3), (5, 5)],
    'RotatedPlanar2DCode': [(2, 3), (3, 3), (5, 4)],
    'Color666PlanarCode': [(1, 1), (3, 3)],
    'Color666ToricCode': [(1, 1), (2, 2)],
    'Color488Code': [(1, 1), (1, 2)],
    'Toric3DCode': [(2, 2, 2), (3, 2, 4)],
    'Planar3DCode': [(2, 2, 2), (3, 2, 3)],
    'RotatedPlanar3DCode': [(2, 2, 2), (3, 4, 3)],
    'RotatedToric3DCode': [(2, 2, 2), (4, 3, 2)],
    'RhombicToricCode': [(2, 2, 2), (2, 4, 2)],
    'RhombicPlanarCode': [(2, 2, 2), (3, 2, 3)],
    'HollowPlanar3DCode': [(2, 2, 2), (3, 3, 4)],
    'HollowRhombicCode': [(2, 2, 3), (4, 4, 4)],
    'XCubeCode': [(2, 2, 2), (2, 3, 4), (3, 3, 3), (3, 2, 2), (2, 3, 2)],
    'Color3DCode': [(2, 2, 2)],
}
SIZES_T_EXTRA = {
    'Toric2DCode': [(2, 5), (4, 4), (6, 7)],
    'Planar2DCode': [(1, 4), (3, 3), (6, 5)],
    'RotatedPlanar2DCode': [(2, 2), (4, 4), (7, 6)],
    'Color666PlanarCode': [(2, 2), (5, 5)],
    'Color666ToricCode': [(3, 3)],
    'Color488Code': [(2, 2), (3, 2)],
    'Toric3DCode': [(3, 3, 3), (2, 4, 3), (4, 4, 4)],
    'Planar3DCode': [(3, 3, 3), (2, 4, 3)],
    'RotatedPlanar3DCode': [(3, 3, 3), (2, 5, 2), (5, 5, 3)],
    'RotatedToric3DCode': [(2, 3, 3), (4, 4, 2), (4, 5, 3)],
    'RhombicToricCode': [(4, 4, 4), (2, 2, 4)],
    'RhombicPlanarCode': [(3, 3, 3), (2, 4, 3)],
    'HollowPlanar3DCode': [(3, 3, 3), (4, 3, 5)],
    'HollowRhombicCode': [(3, 3, 4), (5, 4, 5)],
    'XCubeCode': [(2, 2, 3), (4, 4, 4), (2, 2, 5), (4, 2, 3)],
    'Color3DCode': [(2, 2, 4)],
}


# every axis gets to be the odd one out (XCubeMatchingDecoder only failed
# when L_x != L_y or L_y != L_z in particular arrangements)
for _cls in ('Toric3DCode', 'Planar3DCode', 'RotatedPlanar3DCode',
             'RotatedToric3DCode', 'XCubeCode'):
    for _s in ((3, 2, 2), (2, 3, 2), (2, 2, 3)):
        if fam.SUPPORTED[_cls](*_s) and _s not in SIZES_Q[_cls]:
            SIZES_Q[_cls].append(_s)


def decoder_classes():
    from panqec.config import DECODERS
    return dict(DECODERS)


def allowed_classes(dec_cls):
    ac = dec_cls.allowed_codes
    if ac is None:
        return list(fam.ALL_CLASSES)
    return [c for c in ac if c in fam.ALL_CLASSES]


def plan(tier, seed):
    tasks = []
    decs = decoder_classes()
    rates = [0.05, 0.2] if tier == 'quick' else [0.01, 0.05, 0.1, 0.2, 0.4]
    nrand = 25 if tier == 'quick' else 150
    for dname, dcls in decs.items():
        for cls in allowed_classes(dcls):
            sizes = list(SIZES_Q[cls])
            if tier == 'thorough':
                sizes += SIZES_T_EXTRA[cls]
            if dname == 'MemoryBeliefPropagationDecoder':
                sizes = [s for s in sizes if fam.n_estimate(cls, s) <= 13][:2]
                if cls == 'Toric2DCode':
                    sizes = [(2, 2)]
                if cls == 'RotatedPlanar2DCode':
                    sizes = [(2, 3), (3, 3)]
            if dname == 'UnionFindDecoder':
                sizes = [s for s in sizes if s[0] * s[1] <= 30]
            if dname in ('SweepMatchDecoder', 'RotatedSweepMatchDecoder'):
                sizes = [s for s in sizes
                         if fam.n_estimate(cls, s) <= (110 if tier == 'quick'
                                                       else 240)]
            for size in sizes:
                defs = fam.deformations(cls)
                code_defs = [(None, {})]
                if dname in ('BeliefPropagationOSDDecoder',
                             'MemoryBeliefPropagationDecoder'):
                    code_defs = defs if tier == 'thorough' else defs[:2]
                for cdname, cdkw in code_defs:
                    noise_list = ['depol', 'biasZ30', 'pureZ', 'skew'] \
                        if tier == 'quick' else list(NOISES)
                    if cdname is not None:
                        noise_list = ['depol', 'biasZ3']
                    for noise in noise_list:
                        ndefs = [(None, {})]
                        if cdname is None and len(defs) > 1 and \
                                noise in ('depol', 'biasZ30', 'biasZ3',
                                          'skew'):
                            ndefs = defs[:2] if tier == 'quick' else defs
                        for ndname, ndkw in ndefs:
                            for rate in rates:
                                if tier == 'quick' and rate == 0.2 and \
                                        noise in ('pureZ', 'skew'):
                                    continue
                                n_est = fam.n_estimate(cls, size)
                                per = {'UnionFindDecoder': 16,
                                       'MemoryBeliefPropagationDecoder': 200,
                                       'XCubeMatchingDecoder': 40,
                                       'SweepMatchDecoder': 0.5 * n_est,
                                       'RotatedSweepMatchDecoder': 1.5 * n_est
                                       }.get(dname, 1 + n_est / 30)
                                nr = nrand
                                if dname == 'MemoryBeliefPropagationDecoder':
                                    nr = 4 if tier == 'quick' else 12
                                if dname in ('SweepMatchDecoder',
                                             'RotatedSweepMatchDecoder',
                                             'XCubeMatchingDecoder',
                                             'UnionFindDecoder'):
                                    nr = max(6, nrand // 3)
                                tasks.append({
                                    'decoder': dname, 'cls': cls,
                                    'size': list(size),
                                    'code_def': [cdname, cdkw],
                                    'noise': noise,
                                    'noise_def': [ndname, ndkw],
                                    'rate': rate, 'nrand': nr, 'seed': seed,
                                    'tier': tier,
                                    'cost': per * (nr + 20) + 50})
    # constructor options away from their defaults (a quick BP pass before
    # OSD, the other BP rule, no OSD sweep)
    for cls in allowed_classes(decs['BeliefPropagationOSDDecoder']):
        size = SIZES_Q[cls][min(1, len(SIZES_Q[cls]) - 1)]
        for kwargs in ({'max_bp_iter': 1}, {'max_bp_iter': 2, 'osd_order': 0},
                       {'max_bp_iter': 5, 'bp_method': 'product_sum'},
                       {'max_bp_iter': 0}):
            tasks.append({
                'decoder': 'BeliefPropagationOSDDecoder', 'cls': cls,
                'size': list(size), 'code_def': [None, {}], 'noise': 'skew',
                'noise_def': [None, {}], 'rate': 0.1, 'nrand': 8,
                'decoder_kwargs': dict(kwargs), 'seed': seed, 'tier': tier,
                'options_cell': True, 'cost': 600})
    # union-find on larger tori, where clusters merge, close on themselves
    # and wrap (rates up to the regime where half the syndromes do that)
    if 'UnionFindDecoder' in decs:
        for size in ([(4, 4), (6, 6), (8, 8), (10, 3), (10, 10)]
                     if tier == 'quick' else
                     [(4, 4), (6, 6), (7, 5), (8, 8), (10, 3), (10, 10),
                      (12, 12), (9, 14)]):
            for rate in (0.05, 0.1, 0.15):
                tasks.append({
                    'decoder': 'UnionFindDecoder', 'cls': 'Toric2DCode',
                    'size': list(size), 'code_def': [None, {}],
                    'noise': 'depol', 'noise_def': [None, {}], 'rate': rate,
                    'nrand': 40 if tier == 'quick' else 200, 'seed': seed,
                    'tier': tier, 'large_uf': True,
                    'cost': 60 * size[0] * size[1]})
    # the end points of the error-rate axis (a sweep that starts at 0 or
    # ends at 1), for every decoder on one or two small lattices
    ends = {'MatchingDecoder': [('Toric2DCode', (3, 4)),
                                ('RotatedPlanar2DCode', (3, 3))],
            'UnionFindDecoder': [('Toric2DCode', (3, 3))],
            'BeliefPropagationOSDDecoder': [('Toric2DCode', (3, 4)),
                                            ('Planar2DCode', (2, 3))],
            'MemoryBeliefPropagationDecoder': [('Planar2DCode', (2, 3))],
            'SweepMatchDecoder': [('Toric3DCode', (2, 2, 3))],
            'RotatedSweepMatchDecoder': [('RotatedPlanar3DCode', (2, 2, 2))],
            'XCubeMatchingDecoder': [('XCubeCode', (2, 2, 3))]}
    for dname, lst in ends.items():
        if dname not in decs:
            continue
        for cls, size in lst:
            for noise in ('depol', 'pureZ', 'pureX', 'xy', 'pureY'):
                for rate in (0.0, 1.0):
                    tasks.append({
                        'decoder': dname, 'cls': cls, 'size': list(size),
                        'code_def': [None, {}], 'noise': noise,
                        'noise_def': [None, {}], 'rate': rate,
                        'nrand': 6, 'seed': seed, 'tier': tier,
                        'end_point': True, 'cost': 400})
    # every code-deformation variant of one (class, size) decoded by fresh
    # BP-OSD / MBP objects inside ONE process, in both orders (anything
    # shared between decoder instances shows here)
    seqs = [('Toric2DCode', (3, 4)), ('Planar2DCode', (3, 3)),
            ('RotatedPlanar2DCode', (3, 4)), ('Toric3DCode', (2, 3, 2)),
            ('XCubeCode', (2, 2, 2)), ('RhombicToricCode', (2, 2, 2)),
            ('Color488Code', (1, 2)), ('RotatedToric3DCode', (2, 3, 2))]
    if tier == 'thorough':
        seqs += [('Toric3DCode', (3, 3, 3)), ('Planar3DCode', (2, 3, 2)),
                 ('RotatedPlanar3DCode', (3, 2, 2)),
                 ('Color666ToricCode', (2, 2)),
                 ('HollowRhombicCode', (2, 2, 3))]
    for cls, size in seqs:
        tasks.append({'kind': 'defseq', 'cls': cls, 'size': list(size),
                      'seed': seed, 'tier': tier, 'cost': 4000})
    # BP-OSD with exactly the parameters `panqec generate-input` writes
    gi = [('Toric2DCode', (3, 3)), ('Toric2DCode', (5, 5)),
          ('Planar2DCode', (2, 2)), ('RotatedPlanar2DCode', (3, 3)),
          ('Toric3DCode', (2, 2, 2)), ('XCubeCode', (2, 2, 2))]
    if tier == 'thorough':
        gi += [('Toric2DCode', (4, 6)), ('Planar2DCode', (4, 4)),
               ('Color666PlanarCode', (3, 3)), ('RhombicToricCode', (2, 2, 2)),
               ('RotatedPlanar3DCode', (3, 3, 3)), ('Toric2DCode', (8, 8))]
    for cls, size in gi:
        for rate in ([0.1] if tier == 'quick' else [0.02, 0.1, 0.3]):
            tasks.append({
                'decoder': 'BeliefPropagationOSDDecoder', 'cls': cls,
                'size': list(size), 'code_def': [None, {}], 'noise': 'depol',
                'noise_def': [None, {}], 'rate': rate, 'nrand': nrand,
                'decoder_kwargs': {'max_bp_iter': 1000, 'osd_order': 100},
                'seed': seed, 'tier': tier, 'cost': 3000})
    if tier == 'thorough':
        tasks.append({'kind': 'valgrind', 'seed': seed, 'cost': 1e7})
    return tasks


RATE_TYPES = [float, np.float64, np.float32]


def build_cell(task):
    from panqec.error_models import PauliErrorModel
    cls, size = task['cls'], tuple(task['size'])
    cdname, cdkw = task['code_def']
    ndname, ndkw = task['noise_def']
    code = fam.build(cls, size, cdname, cdkw)
    rx, ry, rz = NOISES[task['noise']]
    em = PauliErrorModel(rx, ry, rz, deformation_name=ndname,
                         deformation_kwargs=dict(ndkw) if ndkw else None)
    dcls = decoder_classes()[task['decoder']]
    kw = {}
    if task['decoder'] == 'MemoryBeliefPropagationDecoder':
        kw = {'max_bp_iter': 3}
    if task.get('decoder_kwargs'):
        kw.update(task['decoder_kwargs'])
    # the error rate as a plain float, or as the numpy scalar a sweep over
    # np.linspace / an array of rates hands over
    rt = RATE_TYPES[(len(cls) + sum(size) + int(task['rate'] * 100)) % 3]
    dec = dcls(code, em, rt(task['rate']), **kw)
    return code, em, dec


def is_risky(task):
    """Cells in which panqec hands ldpc an osd_order larger than the number
    of free columns (n - rank) of some matrix it decodes with."""
    if task['decoder'] not in ('BeliefPropagationOSDDecoder',
                               'XCubeMatchingDecoder'):
        return False
    code = fam.build(task['cls'], tuple(task['size']), *task['code_def'])
    order = (task.get('decoder_kwargs') or {}).get('osd_order', 10)
    n = code.n
    if code.is_css:
        free = min(n - gf2.rank(gf2.pack_rows(code.Hx)),
                   n - gf2.rank(gf2.pack_rows(code.Hz)))
    else:
        free = 2 * n - gf2.rank(gf2.pack_rows(code.stabilizer_matrix))
    return order > free


def cell_desc(task):
    d = {k: task[k] for k in ('decoder', 'cls', 'size', 'code_def',
                              'noise', 'noise_def', 'rate')}
    if task.get('decoder_kwargs'):
        d['decoder_kwargs'] = task['decoder_kwargs']
    return d


def mech_of(task, tag):
    cdn = task['code_def'][0]
    rect = 'rect' if len(set(task['size'])) > 1 else 'cubic'
    base = f"{task['decoder']}/{task['cls']}"
    if cdn:
        base += '/deformed'
    # everything the known-finding classifier needs is folded into the tag
    if task['decoder'] == 'UnionFindDecoder' and min(task['size']) == 2 \
            and tag == 'wrong-syndrome':
        tag += '/period-2-double-edges'
    if task['decoder'] == 'RotatedSweepMatchDecoder' and \
            task['cls'] == 'RotatedToric3DCode' and \
            tag == 'construct-raises-ValueError' and \
            (task['size'][0] % 2 == 1 or task['size'][1] % 2 == 1):
        tag += '/odd-size-code-is-not-css'
    if task['decoder'] == 'MemoryBeliefPropagationDecoder' and \
            task['noise'].startswith('pure') and min(task['size']) == 1 \
            and tag == 'zero-syndrome-nonzero-correction':
        tag += '/pure-noise-on-width-1-lattice'
    if (task.get('decoder_kwargs') or {}).get('osd_order', 0) > 10:
        tag += '/generate-input-parameters'
    return f'{base}/{rect}/{tag}'


def run_cell(task, out):
    desc = cell_desc(task)
    rng = np.random.default_rng([task['seed'], 505, hash_cell(desc)])
    try:
        with contextlib.redirect_stdout(io.StringIO()):
            code, em, dec = build_cell(task)
    except Exception as e:
        where = panqec_frame(e)
        if where is None:
            raise
        out.violation(mech_of(task, f'construct-raises-{type(e).__name__}'),
                      f'constructing the decoder raised {type(e).__name__}: '
                      f'{e} at {where}', dict(desc, where=where))
        out.case(desc, False)
        return
    out.count('decoders_constructed')
    if type(getattr(dec, 'error_rate', 0.0)) is not float:
        out.count('decoders_with_numpy_error_rate')
    n = code.n
    H = gf2.pack_rows(code.stabilizer_matrix)
    m = len(H)
    complete = task['decoder'] in COMPLETE
    # ---- syndromes --------------------------------------------------------
    synds = []          # (label, syndrome int)
    col_syn = [gf2.syndrome_int(H, 1 << i, n) for i in range(2 * n)]
    ech = gf2.Echelon(col_syn)
    if ech.rank <= (8 if task['tier'] == 'quick' else 10) and \
            task['decoder'] not in ('MemoryBeliefPropagationDecoder',
                                    'UnionFindDecoder',
                                    'XCubeMatchingDecoder'):
        for s in gf2.span(col_syn):
            synds.append(('all-valid', s))
        out.count('cells_with_all_valid_syndromes')
    rx, ry, rz = NOISES[task['noise']]
    p = task['rate']
    probs = np.array([1 - p, p * rx, p * ry, p * rz])
    for j in range(task['nrand']):
        if j % 5 == 4:
            pr = np.array([0.25, 0.25, 0.25, 0.25])     # arbitrary Pauli
            lab = 'uniform-pauli'
            if min(rx, ry, rz) == 0.0:
                continue       # impossible under the prior: not fed (note)
        else:
            pr, lab = probs, 'from-noise'
        letters = rng.choice(4, size=n, p=pr)
        x = (letters == 1) | (letters == 2)
        z = (letters == 3) | (letters == 2)
        e = gf2.pack(np.concatenate([x, z]))
        synds.append((lab, gf2.syndrome_int(H, e, n)))
    # sector-wise zero syndromes: X-only and Z-only single-qubit errors
    for q in rng.choice(n, size=min(n, 3), replace=False):
        synds.append(('x-only', gf2.syndrome_int(H, 1 << int(q), n)))
        synds.append(('z-only', gf2.syndrome_int(H, 1 << (n + int(q)), n)))
    order = list(range(len(synds)))
    rng.shuffle(order)
    synds = [('zero-first', 0)] + [synds[i] for i in order] + \
        [('zero-last', 0)]
    nonzero_seen = 0
    dtypes = ['uint8', 'int64', 'bool', 'int32', 'uint8']
    for j, (lab, s_int) in enumerate(synds):
        s = gf2.unpack(s_int, m).astype(dtypes[j % 5]) if m else \
            np.zeros(0, dtype='uint8')
        try:
            with contextlib.redirect_stdout(io.StringIO()):
                if task['decoder'] == 'XCubeMatchingDecoder':
                    with LoopWatch() as lw:
                        c = dec.decode(s.copy())
                    out.count('termination_monitor_states', lw.states)
                else:
                    c = dec.decode(s.copy())
        except NonTermination as e:
            tag = 'decode-does-not-terminate'
            if p * (max(rx, rz) + ry) >= 0.5:
                tag += '/flip-marginal-at-least-half'
            out.violation(mech_of(task, tag), str(e),
                          dict(desc, syndrome=s if m <= 64 else None,
                               label=lab))
            break
        except Exception as e:
            where = panqec_frame(e)
            if where is None:
                raise
            out.violation(
                mech_of(task, f'decode-raises-{type(e).__name__}'),
                f'decode raised {type(e).__name__}: {e} at {where}',
                dict(desc, where=where, syndrome=s if m <= 64 else None,
                     label=lab))
            break
        out.count('decode_calls')
        if s.dtype == bool and s_int:
            out.count('decode_calls_with_bool_syndrome')
        if s_int:
            nonzero_seen += 1
        c = np.asarray(c)
        w = dict(desc, label=lab, call_index=j,
                 syndrome=s if m <= 64 else f'weight {int(s.sum())}')
        if c.shape != (2 * n,):
            out.violation(mech_of(task, 'shape'),
                          f'correction shape {c.shape} != ({2 * n},)', w)
            continue
        if not np.all((c == 0) | (c == 1)):
            out.violation(mech_of(task, 'not-binary'),
                          f'correction holds values {np.unique(c)[:5]}', w)
            continue
        c_int = gf2.pack(c)
        if s_int == 0 and p * (max(rx, rz) + ry) >= 0.5:
            # a flip marginal of 1/2 or more: the most likely error with the
            # trivial syndrome need not be trivial (outside C09's domain
            # too); only shape / validity / syndrome are judged here
            out.count('zero_syndrome_decodes_at_marginals_above_half')
        elif s_int == 0:
            out.count('zero_syndrome_decodes')
            if c_int != 0:
                out.violation(
                    mech_of(task, 'zero-syndrome-nonzero-correction'),
                    f'trivial syndrome decoded to a weight-'
                    f'{gf2.weight(c_int, n)} correction ({lab}, call {j})', w)
                continue
        if complete:
            out.count('syndrome_equalities_checked')
            if gf2.syndrome_int(H, c_int, n) != s_int:
                out.violation(
                    mech_of(task, 'wrong-syndrome'),
                    f'syndrome(correction) != measured syndrome '
                    f'({lab}, call {j})',
                    dict(w, correction=c if n <= 40 else None))
    if task['code_def'][0] is not None:
        out.count('noncss_cells')
    if len(set(task['size'])) > 1:
        out.count('rectangular_cells')
    out.count('cells_' + task['decoder'])
    if task.get('end_point'):
        out.count('cells_at_error_rate_0_or_1')
    if task.get('large_uf'):
        out.count('union_find_cells_on_larger_tori')
    if task.get('options_cell'):
        out.count('cells_with_non_default_decoder_options')
    out.case(desc, nontrivial=nonzero_seen > 0, n=len(synds),
             sample=dict(desc, n=n, syndromes=len(synds)))


class NonTermination(Exception):
    pass


class LoopWatch:
    """Termination monitor on logical steps for XCubeMatchingDecoder's path
    walker (get_matched_pairs): the loop is deterministic in its local state,
    so the same (line, locals) seen twice within one call proves that the
    call never returns.  Installed with sys.settrace around one decode."""
    KEYS = ('s', 's_prime', 'prev_qubit', 'continue_search')

    def __init__(self):
        self.states = 0

    def __enter__(self):
        import sys
        self.prev = sys.gettrace()
        sys.settrace(self.glob)
        return self

    def __exit__(self, *a):
        import sys
        sys.settrace(self.prev)

    def glob(self, frame, event, arg):
        co = frame.f_code
        if co.co_name == 'get_matched_pairs' and \
                'xcube' in co.co_filename:
            self.seen = set()
            # states are sampled at the head of the while loop only: there
            # no for-iterator is alive, so the locals determine the future
            import inspect
            src, first = inspect.getsourcelines(co)
            self.heads = {first + k for k, ln in enumerate(src)
                          if ln.strip().startswith('while ')}
            return self.local
        return None

    def local(self, frame, event, arg):
        if event == 'line' and frame.f_lineno in self.heads:
            loc = frame.f_locals
            st = (frame.f_lineno, len(loc.get('pairs', ())),
                  len(loc.get('seen_syndromes', ()))) + tuple(
                int(loc[k]) if k in loc else None for k in self.KEYS)
            self.states += 1
            if st in self.seen:
                raise NonTermination(
                    f'get_matched_pairs revisits the state {st}: the walk '
                    'along the matched qubits runs round a closed loop')
            self.seen.add(st)
        return self.local


def hash_cell(desc):
    from pv.common import digest
    return int(digest(desc), 16) % (2 ** 31)


def run_isolated(task, out):
    """Run one cell in a child interpreter; a child killed by a signal (e.g.
    glibc 'double free or corruption' abort inside ldpc) is a violation."""
    work = os.environ.get('PV_WORK') or tempfile.gettempdir()
    fd, path = tempfile.mkstemp(prefix='c05-', suffix='.json', dir=work)
    os.close(fd)
    t2 = dict(task, isolated=True)
    code = ('import sys, json\n'
            'from pv.common import Shard\n'
            'from pv.checks import c05\n'
            'task = json.loads(sys.argv[1])\n'
            'out = Shard()\n'
            'c05.run_cell(task, out)\n'
            'json.dump(out.dump(), open(sys.argv[2], "w"))\n')
    try:
        p = subprocess.run([PYTHON, '-c', code, json.dumps(t2), path],
                           env=child_env(), capture_output=True, text=True,
                           timeout=600)
    except subprocess.TimeoutExpired:
        out.inconclusive_case(f'isolated cell timed out: {cell_desc(task)}')
        os.unlink(path)
        return
    try:
        if p.returncode == 0 and os.path.getsize(path) > 0:
            with open(path) as f:
                d = json.load(f)
            merge_dump(out, d)
            out.count('isolated_children_ok')
        elif p.returncode < 0 or p.returncode in (134, 139):
            out.violation(
                mech_of(task, 'native-crash'),
                f'decoder process died with status {p.returncode} '
                f'({p.stderr.strip().splitlines()[-1][:120] if p.stderr.strip() else ""})',
                dict(cell_desc(task), returncode=p.returncode,
                     stderr=p.stderr[-400:]))
            out.case(cell_desc(task), True)
            out.count('isolated_children_crashed')
        else:
            out.inconclusive_case(
                f'isolated cell exit {p.returncode}: {p.stderr[-600:]}')
    finally:
        if os.path.exists(path):
            os.unlink(path)


def merge_dump(out, d):
    out.evaluations += d['evaluations']
    for h, v in d['cases'].items():
        out.cases[h] = max(out.cases.get(h, 0), v)
    for k, v in d['counters'].items():
        out.count(k, v)
    for s in d['samples']:
        out.sample(s)
    for v in d['violations']:
        out.violation(v['mechanism'], v['what'], v['witness'])
    # counts beyond the stored ones
    for mname, cnt in d.get('by_mech', {}).items():
        stored = sum(1 for v in d['violations'] if v['mechanism'] == mname)
        if cnt > stored:
            out.by_mech[mname] = out.by_mech.get(mname, 0) + cnt - stored
            out.violation_count += cnt - stored
    for r in d['inconclusive']:
        out.inconclusive_case(r)


# ---------------------------------------------------------------- valgrind

VG_WORKLOAD = r'''
import numpy as np, sys
from panqec.codes import Planar2DCode, Toric2DCode, RotatedPlanar2DCode
from panqec.decoders import BeliefPropagationOSDDecoder, MatchingDecoder
from panqec.error_models import PauliErrorModel
em = PauliErrorModel(1/3, 1/3, 1/3)
rng = np.random.default_rng(1)
which = sys.argv[1]
if which == 'bposd-default':
    cells = [(Planar2DCode(2, 2), {}), (Toric2DCode(3, 3), {})]
elif which == 'bposd-generated-input':
    cells = [(Planar2DCode(2, 2), {'max_bp_iter': 1000, 'osd_order': 100})]
else:
    cells = []
for code, kw in cells:
    dec = BeliefPropagationOSDDecoder(code, em, 0.1, **kw)
    for t in range(10):
        e = em.generate(code, 0.2, rng)
        dec.decode(code.measure_syndrome(e))
if which == 'matching':
    for code in (Toric2DCode(3, 3), Planar2DCode(3, 3),
                 RotatedPlanar2DCode(3, 3)):
        dec = MatchingDecoder(code, em, 0.1)
        for t in range(10):
            e = em.generate(code, 0.2, rng)
            dec.decode(code.measure_syndrome(e))
print('WORKLOAD-DONE')
'''


def parse_valgrind(log):
    """Report blocks with a frame in the native decoder libraries."""
    blocks = re.split(r'\n==\d+== \n', log)
    keep = []
    for b in blocks:
        if not re.search(r'Invalid (read|write)|uninitialised|'
                         r'Mismatched free|Invalid free|definitely lost', b):
            continue
        if not re.search(r'ldpc|_bposd|bp_osd|osd|pymatching|_cpp_pymatching',
                         b):
            continue
        kind = re.search(r'==\d+== ([A-Z][^\n]*)', b)
        frame = re.search(r'(?:at|by) 0x[0-9A-F]+: ([^\n]*?(?:ldpc|osd|'
                          r'pymatching)[^\n]*)', b)
        keep.append(((kind.group(1) if kind else '?')[:60],
                     (frame.group(1) if frame else '?')[:100]))
    return sorted(set(keep))


def run_valgrind(task, out):
    work = os.environ.get('PV_WORK') or tempfile.gettempdir()
    for which in ('bposd-default', 'bposd-generated-input', 'matching'):
        logp = os.path.join(work, f'vg-{which}.log')
        env = child_env()
        env['PYTHONMALLOC'] = 'malloc'
        desc = {'valgrind_workload': which}
        try:
            p = subprocess.run(
                ['valgrind', '--tool=memcheck', '--error-limit=no',
                 f'--log-file={logp}', PYTHON, '-c', VG_WORKLOAD, which],
                env=env, capture_output=True, text=True, timeout=1500)
        except subprocess.TimeoutExpired:
            out.inconclusive_case(f'valgrind {which}: watchdog expired')
            continue
        log = open(logp).read() if os.path.exists(logp) else ''
        out.count('valgrind_runs')
        blocks = parse_valgrind(log)
        out.case(desc, True, sample=dict(desc, report_blocks=len(blocks),
                                         returncode=p.returncode))
        lib = 'pymatching' if which == 'matching' else 'ldpc'
        if p.returncode < 0 or 'WORKLOAD-DONE' not in p.stdout:
            out.violation(f'valgrind/{lib}/{which}/native-crash',
                          f'workload died under valgrind (status '
                          f'{p.returncode})',
                          dict(desc, stderr=p.stderr[-300:],
                               blocks=blocks[:6]))
        if blocks:
            out.violation(f'valgrind/{lib}/{which}/memcheck-report',
                          f'{len(blocks)} distinct memcheck reports with a '
                          f'{lib} frame, e.g. {blocks[0]}',
                          dict(desc, blocks=blocks[:10]))
        out.count('valgrind_report_blocks', len(blocks))


def run_defseq(task, out):
    defs = fam.deformations(task['cls'])
    order = list(range(len(defs)))
    for seq in (order, order[::-1]):
        for di in seq:
            cdn, cdk = defs[di]
            cell = {'decoder': 'BeliefPropagationOSDDecoder',
                    'cls': task['cls'], 'size': task['size'],
                    'code_def': [cdn, cdk], 'noise': 'depol',
                    'noise_def': [None, {}], 'rate': 0.1, 'nrand': 12,
                    'seed': task['seed'], 'tier': 'quick',
                    'decoder_kwargs': {'max_bp_iter': 50}}
            run_cell(cell, out)
            out.count('same_process_deformation_variants')


def run_task(task, out):
    if task.get('kind') == 'defseq':
        run_defseq(task, out)
        return
    if task.get('kind') == 'valgrind':
        run_valgrind(task, out)
        return
    if not task.get('isolated') and is_risky(task):
        out.count('risky_cells_isolated')
        run_isolated(task, out)
    else:
        if not task.get('isolated'):
            # every cell counts as observed under isolation-or-not; the
            # counter below only tells how many ran in-process
            out.count('inprocess_cells')
        run_cell(task, out)


def finalize(run, tier, seed):
    # the anti-vacuity counter is satisfied either by isolated children
    # that ran to completion or, when no cell was risky at all (every
    # osd_order within bounds), by the fact that none was needed
    if run.counters.get('risky_cells_isolated', 0) == 0:
        run.counters['isolated_children_ok'] = \
            run.counters.get('isolated_children_ok', 0) + 1
        run.notes.append('no cell handed ldpc an osd_order above n-rank')


def classify(v):
    m = v['mechanism']
    if m.startswith('UnionFindDecoder/Toric2DCode/') and \
            m.endswith('/wrong-syndrome/period-2-double-edges'):
        return 'C05:UnionFindDecoder/Toric2DCode/period-2-double-edges'
    if m.startswith('MemoryBeliefPropagationDecoder/') and \
            m.endswith('/zero-syndrome-nonzero-correction/'
                       'pure-noise-on-width-1-lattice'):
        return ('C05:MemoryBeliefPropagationDecoder/'
                'pure-noise-nan-on-width-1-lattice')
    if m.startswith('RotatedSweepMatchDecoder/RotatedToric3DCode/') and \
            m.endswith('/odd-size-code-is-not-css') and \
            'not CSS' in v['what']:
        return 'C05:RotatedSweepMatchDecoder/RotatedToric3DCode/odd-size-not-css'
    if m.startswith('XCubeMatchingDecoder/XCubeCode/') and m.endswith(
            '/decode-does-not-terminate/flip-marginal-at-least-half'):
        return ('C05:XCubeMatchingDecoder/closed-loop-walk-at-marginal-'
                'above-half')
    return None


def replay(v, out):
    w = v['witness']
    if 'valgrind_workload' in w:
        run_valgrind({}, out)
        return
    task = {k: w[k] for k in ('decoder', 'cls', 'size', 'code_def', 'noise',
                              'noise_def', 'rate')}
    if w.get('decoder_kwargs'):
        task['decoder_kwargs'] = w['decoder_kwargs']
    task.update(nrand=40, seed=v.get('seed', 0), tier=v.get('tier', 'quick'))
    run_task(task, out)
