"""C01 — every library code is a valid [[n,k]] stabilizer code.

Monitor: for each constructed (class, size, deformation, axis) object the
arrays code.stabilizer_matrix / logicals_x / logicals_z / n / k are read and
judged by own GF(2) arithmetic (pv.gf2), never by panqec's bs_prod / brank.
"""
from __future__ import annotations

import numpy as np

from pv import gf2
from pv import families as fam

PROPERTY = 'C01'
LEVEL = 'exploration'
TECHNIQUE = ('runtime monitoring: reference-model oracle (own bit-packed '
             'GF(2) symplectic arithmetic) over the matrices of every '
             'constructed code object, bounded-exhaustive size enumeration')
MANIFEST_TEXT = ('Every (class, size, deformation, axis) object inside the '
                 'size bound is actually constructed and its H / logicals '
                 'are judged by an independent GF(2) oracle (commutation, '
                 'pairing, rank n-k, independence). Complete below the bound,'
                 ' sampled above it; says nothing about larger sizes.')
MANIFEST_NOTE = ('Trusted: numpy packbits/integer ops, pv/gf2.py (self-tested '
                 'at setup), the supported-size table in pv/families.py. '
                 'Known findings: Color666ToricCode rectangular, '
                 'HollowRhombicCode one-layer hole.')
RULE = ('enumerate every (class, size, deformation, axis) with all size '
        'components <= B(class, tier) inside the supported family and n <= '
        'N_max, plus VERIF_SEED-chosen sizes beyond B; one case = one '
        'constructed object; distinct = distinct (class,size,deformation,'
        'kwargs); non-trivial = the object has at least one stabilizer and '
        'n-k > 0')
ASSUMPTIONS = [
    'supported size family = DESIGN.md section 1.2 (pv/families.py)',
    'numpy packbits / integer arithmetic are correct',
]
REQUIRED_COUNTERS = ['objects_checked', 'objects_with_numpy_integer_sizes',
                     'objects_judged_after_derived_attributes_were_read',
                     'history_steps_checked', 'commutation_pairs_checked',
                     'rank_computations']
EXHAUSTIVE = True
EXHAUSTIVE_SCOPE = ('all supported sizes with components <= B (see '
                    'coverage.bounds) and n <= N_max; random sizes beyond B '
                    'are samples')

N_MAX = {'quick': 700, 'thorough': 4500}
BOUNDS = {
    'quick': {'2d': 7, '3d': 4, 'even3d': 4, 'Color3DCode': 2,
              'Color488Code': 4, 'Color666ToricCode': 4,
              'Color666PlanarCode': 8},
    'thorough': {'2d': 14, '3d': 7, 'even3d': 8, 'Color3DCode': 4,
                 'Color488Code': 8, 'Color666ToricCode': 8,
                 'Color666PlanarCode': 16},
}


NUMPY_SIZE_N_MAX = 400


def bound(cls_name, tier):
    b = BOUNDS[tier]
    if cls_name in b:
        return b[cls_name]
    if cls_name == 'RhombicToricCode':
        return b['even3d']
    return b['2d'] if fam.dimension(cls_name) == 2 else b['3d']


def plan(tier, seed):
    tasks = []
    rng = np.random.default_rng([seed, 101])
    for cls_name in fam.ALL_CLASSES:
        B = bound(cls_name, tier)
        sizes = [s for s in fam.sizes_upto(cls_name, B)
                 if fam.n_estimate(cls_name, s) <= N_MAX[tier]]
        # random sizes beyond the bound (samples, not part of "exhaustive")
        extra = []
        tries = 0
        want = 3 if tier == 'quick' else 10
        while len(extra) < want and tries < 200:
            tries += 1
            dim = fam.dimension(cls_name)
            s = tuple(int(x) for x in rng.integers(1, B + 4, size=dim))
            if cls_name == 'Color666PlanarCode':
                s = (s[0], s[0])
            if (fam.SUPPORTED[cls_name](*s) and max(s) > B and s not in extra
                    and fam.n_estimate(cls_name, s) <= N_MAX[tier]):
                extra.append(s)
        # needle / slab shapes beyond the bound (found HollowRhombic's
        # one-layer-hole defect; enumerated, not sampled)
        nd = [s for s in fam.needle_sizes(cls_name,
                                          8 if tier == 'quick' else 12)
              if s not in sizes and s not in extra
              and fam.n_estimate(cls_name, s) <= N_MAX[tier]]
        extra = extra + nd
        for s in sizes + extra:
            tasks.append({'cls': cls_name, 'size': list(s),
                          'beyond_bound': s in extra,
                          'cost': fam.n_estimate(cls_name, s) ** 1.6 *
                          len(fam.deformations(cls_name))})
    return tasks


def check_code(code, desc, out, prefix='C01'):
    """The C01 oracle on one live object.  Returns dict of facts."""
    cls_name = desc['cls']
    n = code.n
    H = gf2.pack_rows(code.stabilizer_matrix)
    Lx = gf2.pack_rows(code.logicals_x)
    Lz = gf2.pack_rows(code.logicals_z)
    kx, kz = len(Lx), len(Lz)
    k = code.k
    m = len(H)
    mech_base = f'{cls_name}'
    if desc.get('deformation'):
        mech_base += f"/{desc['deformation']}"
    if desc.get('after_history'):
        mech_base += '/after-history'
    rect = 'rect' if len(set(desc['size'])) > 1 else 'cubic'
    ok = True

    def bad(tag, what, extra=None):
        nonlocal ok
        ok = False
        w = dict(desc)
        if extra:
            w.update(extra)
        out.violation(f'{mech_base}/{rect}/{refine(desc, tag)}', what, w)

    if code.stabilizer_matrix.shape != (m, 2 * n):
        bad('shape', f'H shape {code.stabilizer_matrix.shape} != ({m},{2*n})')
    if code.logicals_x.shape[1:] != (2 * n,) or \
            code.logicals_z.shape[1:] != (2 * n,):
        bad('shape', 'logical matrix width != 2n')
    if kx != kz or kx != k:
        bad('k-mismatch', f'k_x={kx} k_z={kz} code.k={k}')
    # (g) no all-zero generator
    zero_rows = [i for i, h in enumerate(H) if h == 0]
    if zero_rows:
        bad('zero-row', f'{len(zero_rows)} all-zero generator rows',
            {'rows': zero_rows[:5]})
    # (a) generators commute
    r = gf2.commutation_matrix_is_zero(H, H, n)
    out.count('commutation_pairs_checked', m * m)
    if r is not None:
        bad('stabilizers-anticommute',
            f'generators {r[0]} and {r[1]} anticommute', {'pair': r})
    # (b) logicals commute with stabilizers
    for nm, L in (('x', Lx), ('z', Lz)):
        r = gf2.commutation_matrix_is_zero(L, H, n)
        out.count('commutation_pairs_checked', len(L) * m)
        if r is not None:
            bad(f'logical-{nm}-vs-stabilizer',
                f'logical {nm}[{r[0]}] anticommutes with generator {r[1]}',
                {'pair': r})
    # (c) logical algebra
    for nm, L in (('x', Lx), ('z', Lz)):
        r = gf2.commutation_matrix_is_zero(L, L, n)
        if r is not None:
            bad(f'logical-{nm}{nm}-anticommute',
                f'logical {nm}[{r[0]}] and {nm}[{r[1]}] anticommute',
                {'pair': r})
    if kx == kz:
        for i in range(kx):
            for j in range(kz):
                v = gf2.symp(Lx[i], Lz[j], n)
                if v != (1 if i == j else 0):
                    bad('logical-xz-pairing',
                        f'<X_{i},Z_{j}> = {v}, expected {int(i == j)}',
                        {'pair': (i, j)})
                    break
            else:
                continue
            break
        out.count('commutation_pairs_checked', kx * kz)
    # (d) rank
    ech = gf2.Echelon(H)
    rk = ech.rank
    out.count('rank_computations')
    if rk != n - k:
        bad('rank', f'rank(H)={rk} but n-k={n - k} (n={n}, k={k}, m={m})',
            {'rank': rk, 'n': n, 'k': k})
    # (e) logicals independent of the stabilizer group and of each other
    for v in Lx + Lz:
        ech.add(v)
    out.count('rank_computations')
    if ech.rank != rk + kx + kz:
        bad('logicals-dependent',
            f'rank([H;Lx;Lz])={ech.rank}, expected {rk + kx + kz}')
    return {'n': n, 'k': k, 'm': m, 'rank': rk, 'ok': ok}


def refine(desc, tag):
    """Mechanism tags are the unit of known-finding classification, so
    everything the classifier needs is folded into the tag here."""
    if desc['cls'] == 'HollowRhombicCode' and tag == 'rank':
        Lx, Ly, Lz = desc['size']
        # the hole {2<x<2Lx-2, 3<=y<2Ly-4, 3<=z<2Lz-4} is one lattice
        # coordinate thick in some direction
        if Lx == 3 or Ly == 4 or Lz == 4:
            return 'rank-deficit-one-layer-hole'
    return tag


SIZE_TYPES = {'int64': np.int64, 'int32': np.int32}


def run_one(cls_name, size, dname, kwargs, out, beyond=False,
            size_type=None):
    desc = {'cls': cls_name, 'size': [int(x) for x in size],
            'deformation': dname, 'kwargs': kwargs}
    rect = 'rect' if len(set(size)) > 1 else 'cubic'
    if size_type:
        # the same lattice, its sizes handed over as numpy integers (from
        # np.arange, an array of sizes, a DataFrame column, ...)
        desc['size_type'] = size_type
        rect = 'numpy-' + rect
        size = tuple(SIZE_TYPES[size_type](x) for x in size)
    try:
        code = fam.build(cls_name, size, dname, kwargs)
        facts = check_code(code, desc, out)
    except Exception as e:        # construction must not raise in-family
        import traceback
        tb = traceback.extract_tb(e.__traceback__)
        where = next((f'{f.filename.split("/")[-1]}:{f.name}'
                      for f in reversed(tb) if '/panqec/' in f.filename),
                     'harness')
        if where == 'harness':
            raise
        mech = f'{cls_name}' + (f'/{dname}' if dname else '') + \
            f'/{rect}/raises-{type(e).__name__}'
        out.violation(mech, f'{type(e).__name__}: {e} at {where}',
                      dict(desc, where=where))
        out.case(desc, nontrivial=False)
        return
    out.count('objects_checked')
    if size_type:
        out.count('objects_with_numpy_integer_sizes')
    if beyond:
        out.count('objects_beyond_bound')
    if dname:
        out.count('deformed_objects_checked')
    if rect == 'rect':
        out.count('non_cubic_objects_checked')
    out.case(desc, nontrivial=facts['m'] > 0 and facts['n'] - facts['k'] > 0,
             sample=dict(desc, **facts))
    out.extra.setdefault('max_n_seen', 0)
    out.extra['per_class'] = out.extra.get('per_class', {})
    out.extra['per_class'][cls_name] = \
        out.extra['per_class'].get(cls_name, 0) + 1


def touch(code):
    """What constructing a simulation, a decoder or a results record reads
    off a code object."""
    for attr in ('label', 'id', 'params', 'n', 'k', 'd', 'is_css',
                 'n_stabilizers', 'x_indices', 'z_indices', 'size'):
        getattr(code, attr)


def run_touched(cls_name, size, dname, kwargs, out):
    """The derived attributes are read first, the object is judged, they
    are read again and it is judged again: reading must not change it."""
    from pv.common import panqec_frame
    rect = 'rect' if len(set(size)) > 1 else 'cubic'
    desc = {'cls': cls_name, 'size': list(size), 'deformation': dname,
            'kwargs': kwargs, 'after_history': True,
            'history': 'derived attributes read first'}
    try:
        code = fam.build(cls_name, size, dname, kwargs)
        touch(code)
        check_code(code, desc, out)
        touch(code)
        facts = check_code(code, dict(desc, history='derived attributes '
                                      'read, judged, read again'), out)
        out.count('objects_judged_after_derived_attributes_were_read')
        out.case(desc, nontrivial=facts['m'] > 0)
    except Exception as e:
        where = panqec_frame(e)
        if where is None:
            raise
        out.violation(f'{cls_name}/{rect}/after-history/'
                      f'raises-{type(e).__name__}',
                      f'{type(e).__name__}: {e} at {where}',
                      dict(desc, where=where))


def run_task(task, out):
    cls_name, size = task['cls'], tuple(task['size'])
    defs = fam.deformations(cls_name)
    for dname, kwargs in defs:
        run_one(cls_name, size, dname, kwargs, out, task.get('beyond_bound'))
    for dname, kwargs in defs[:2]:
        run_touched(cls_name, size, dname, kwargs, out)
    if fam.n_estimate(cls_name, size) <= NUMPY_SIZE_N_MAX:
        st = ['int64', 'int32'][sum(size) % 2]
        for dname, kwargs in defs[:2]:
            run_one(cls_name, size, dname, kwargs, out,
                    task.get('beyond_bound'), size_type=st)
    # History on ONE object: every derived datum is read (by the oracle),
    # then the object is deformed and judged again, for each offered
    # deformation in turn -- validity must not depend on what was computed
    # or which deformation was applied before.
    if len(defs) > 1:
        from pv.common import panqec_frame
        rect = 'rect' if len(set(size)) > 1 else 'cubic'
        try:
            code = fam.build(cls_name, size)
            hist = [None]
            check_code(code, {'cls': cls_name, 'size': list(size),
                              'deformation': None, 'history': hist}, out)
            for dname, kwargs in defs[1:] + defs[1:2]:
                code.deform(dname, **kwargs)
                hist = hist + [[dname, kwargs]]
                desc = {'cls': cls_name, 'size': list(size),
                        'deformation': dname, 'kwargs': kwargs,
                        'history': hist, 'after_history': True}
                facts = check_code(code, desc, out)
                out.count('history_steps_checked')
                out.case(desc, nontrivial=facts['m'] > 0)
        except Exception as e:
            where = panqec_frame(e)
            if where is None:
                raise
            out.violation(f'{cls_name}/{rect}/after-history/'
                          f'raises-{type(e).__name__}',
                          f'{type(e).__name__}: {e} at {where}',
                          {'cls': cls_name, 'size': list(size),
                           'where': where, 'after_history': True})


KNOWN = {
}


def classify(v):
    m = v['mechanism']
    tag = m.rsplit('/', 1)[-1]
    m = m.replace('/after-history', '').replace('/numpy-', '/')
    if (m.startswith('Color666ToricCode/') and '/rect/' in m
            and (tag.startswith('logical-') or tag == 'raises-KeyError')):
        if tag == 'raises-KeyError' and \
                v['witness'].get('where') != '_stabilizer_code.py:to_bsf':
            return None
        return 'C01:Color666ToricCode/rectangular'
    if m.startswith('HollowRhombicCode/') and \
            tag == 'rank-deficit-one-layer-hole':
        return 'C01:HollowRhombicCode/one-layer-hole-rank-deficit'
    return None


def finalize(run, tier, seed):
    run.extra['bounds'] = {c: bound(c, tier) for c in fam.ALL_CLASSES}
    run.extra['N_max'] = N_MAX[tier]
    pc = run.extra.get('per_class')
    # per_class is merged as "last writer wins" dicts; recompute is not
    # possible here, so drop it rather than report a partial number.
    run.extra.pop('per_class', None)
    run.extra.pop('max_n_seen', None)


def replay(v, out):
    w = v['witness']
    run_one(w['cls'], tuple(w['size']), w.get('deformation'),
            w.get('kwargs') or {}, out)
