"""C03 — Pauli representations are lossless, the symplectic product is exact.

Monitor: every value returned by panqec.bpauli.bs_prod (called directly, and
through code.measure_syndrome) and by the converters is compared with an
oracle computed on bit-packed Python ints (pv.gf2).  Workload: exhaustive on
n <= 3 in every representation pair and shape; random stacks up to n ~ 600
with planted overlaps around 255 / 511 (uint8 wrap), extreme densities.
"""
from __future__ import annotations

import itertools

import numpy as np
from scipy.sparse import csr_matrix

from pv import gf2

PROPERTY = 'C03'
LEVEL = 'exploration'
TECHNIQUE = ('runtime monitoring: post-condition oracle (popcount parity on '
             'Python ints) on every bs_prod / converter return value; '
             'exhaustive n<=3 in all representation pairs, random large '
             'stacks with planted uint8-wrap overlaps; snapshots of every '
             'argument compared after the call, returned arrays modified '
             'and the call repeated')
MANIFEST_TEXT = ('All 4^n x 4^n operator pairs for n<=3 are pushed through '
                 'bs_prod in every pair of accepted representations (list, 6 '
                 'integer dtypes, csr, csr with stored zeros) and shapes (1-D, (1,2n), stacked) and '
                 'compared with an independent popcount oracle; random '
                 'stacks to n=600 with overlaps >255; converters round-trip '
                 'and cross-agree on all strings of length <=4 and random '
                 'long ones.  Exhaustive for n<=3, sampled beyond.')
MANIFEST_NOTE = ('Trusted: pv/gf2.py, numpy array construction. bool arrays '
                 'are outside "integer dtype" and not fed. Multi-row csr '
                 'input to bsf_wt is outside "sparse rows" and not judged.')
RULE = ('case = one bs_prod / converter call (or one table cell of a stacked '
        'call, counted in counters not evaluations); distinct = (function, '
        'n, representation pair, shape pair, operand digest); non-trivial = '
        'at least one operand non-zero')
ASSUMPTIONS = ['documented squeezing rule: 2-D x 1-D and 1-D x 2-D return '
               'shape (m,); other shapes are compared after reshape to '
               '(m_a, m_b)']
REQUIRED_COUNTERS = ['bs_prod_calls', 'table_cells_checked',
                     'converter_roundtrips', 'measure_syndrome_calls',
                     'uint8_wrap_overlaps_checked',
                     'measure_syndrome_after_deform_of_used_object',
                     'converter_results_modified_in_place',
                     'arguments_compared_after_the_call',
                     'stacks_of_different_operators_converted']
EXHAUSTIVE = True
EXHAUSTIVE_SCOPE = ('bs_prod on all operator pairs for n<=3 (thorough; n<=2 '
                    'plus stacked n=3 in quick) x 9x9 representation pairs x '
                    'shape pairs; converters on all strings of length <=4')

DTYPES = ['uint8', 'int8', 'uint16', 'int32', 'int64', 'uint64']
KINDS = ['list'] + DTYPES + ['csr', 'csr0']


def all_paulis(n):
    """All 4^n BSF vectors as an int64 array (4^n, 2n)."""
    return np.array(list(itertools.product([0, 1], repeat=2 * n)),
                    dtype=np.int64)


def as_kind(M, kind, shape):
    """M: 2-D int array.  shape in {'1d','row','stack'} ('1d'/'row' need one
    row).  Returns the object handed to panqec."""
    M = np.asarray(M)
    if shape == '1d':
        v = M[0]
        if kind == 'list':
            return [int(x) for x in v]
        if kind in ('csr', 'csr0'):
            return None                      # csr is always 2-D
        return v.astype(kind)
    if kind == 'list':
        return [[int(x) for x in r] for r in M]
    if kind == 'csr':
        return csr_matrix(M.astype('uint8'))
    if kind == 'csr0':
        # a product formed in sparse form (the library's own idiom
        # `r = p + q; r.data %= 2`): carries explicitly stored zeros
        g = np.random.default_rng(int(M.sum()) * 7919 + M.size)
        P = (g.random(M.shape) < 0.5).astype('uint8')
        Q = (M.astype('uint8') ^ P)
        r = csr_matrix(P) + csr_matrix(Q)
        r.data %= 2
        return r.tocsr()
    return M.astype(kind)


def oracle_table(A, B):
    n = A.shape[1] // 2
    pa, pb = gf2.pack_rows(A), gf2.pack_rows(B)
    pbs = [gf2.swap_halves(b, n) for b in pb]
    return np.array([[gf2.popcount(a & b) & 1 for b in pbs] for a in pa],
                    dtype=np.int64)


def _snap(x):
    if hasattr(x, 'indptr'):
        return ('csr', x.shape, x.indptr.tobytes(), x.indices.tobytes(),
                x.data.tobytes())
    if isinstance(x, np.ndarray):
        return ('nd', x.shape, str(x.dtype), x.tobytes())
    if isinstance(x, list):
        return ('list', repr(x))
    return ('other', repr(x))


def call_pure(out, name, fn, *args):
    """Call a bpauli function; its arguments belong to the caller and must
    read the same afterwards (callers pass cached matrices such as
    code.logicals_x)."""
    before = [_snap(a) for a in args]
    r = fn(*args)
    out.count('arguments_compared_after_the_call', len(args))
    for i, (a, b) in enumerate(zip(args, before)):
        if _snap(a) != b:
            out.violation(f'converter/{name}/argument-modified',
                          f'{name} changed its argument {i} '
                          f'({type(a).__name__}, '
                          f'{getattr(a, "dtype", "")}) in place',
                          {'f': name, 'arg': i,
                           'dtype': str(getattr(a, 'dtype', ''))})
    return r


def check_call(out, A, B, ka, kb, sa, sb, tag):
    """One bs_prod call on representations (ka,sa) x (kb,sb) of A, B."""
    from panqec import bpauli
    a = as_kind(A, ka, sa)
    b = as_kind(B, kb, sb)
    if a is None or b is None:
        return
    ref = oracle_table(A, B)
    desc = {'f': 'bs_prod', 'n': A.shape[1] // 2, 'kinds': [ka, kb],
            'shapes': [sa, sb], 'ma': A.shape[0], 'mb': B.shape[0],
            'ops': gf2.digest_arrays(A, B) if hasattr(gf2, 'digest_arrays')
            else [int(x) for x in (A.sum(), B.sum(), A.shape[0], B.shape[0])]}
    mech = f'bs_prod/{"sparse" if "csr" in ka + kb else "dense"}'
    try:
        r = call_pure(out, 'bs_prod', bpauli.bs_prod, a, b)
    except Exception as e:
        out.violation(f'{mech}/raises-{type(e).__name__}',
                      f'bs_prod raised {type(e).__name__}: {e}',
                      dict(desc, A=A, B=B) if A.size + B.size < 400 else desc)
        return
    out.count('bs_prod_calls')
    r = np.asarray(r)
    nontrivial = bool(A.any() or B.any())
    out.case(desc, nontrivial=nontrivial,
             sample=dict(desc, result_shape=list(r.shape)))
    ok = True
    if r.size != ref.size:
        ok = False
        what = f'result has {r.size} entries, expected {ref.size}'
        sub = 'size'
    else:
        # shape rule
        if sa == 'stack' and sb == '1d' and r.shape != (A.shape[0],):
            ok, sub = False, 'shape'
            what = f'2-D x 1-D returned shape {r.shape}, not ({A.shape[0]},)'
        elif sa == '1d' and sb == 'stack' and r.shape != (B.shape[0],):
            ok, sub = False, 'shape'
            what = f'1-D x 2-D returned shape {r.shape}, not ({B.shape[0]},)'
        else:
            got = r.reshape(ref.shape).astype(np.int64)
            out.count('table_cells_checked', ref.size)
            if not np.array_equal(got, ref):
                ok, sub = False, 'value'
                i, j = np.argwhere(got != ref)[0]
                what = (f'bs_prod[{i},{j}] = {got[i, j]} but symplectic form '
                        f'= {ref[i, j]} ({tag})')
    if not ok:
        w = dict(desc, tag=tag)
        if A.size + B.size < 400:
            w.update(A=A, B=B)
        else:
            w.update(seed_note='large random operands; see tag')
        out.violation(f'{mech}/{sub}/{tag}', what, w)


def exhaustive_block(out, n, kinds_a, kinds_b, singles):
    P = all_paulis(n)
    # second operand in a different order and of a different length, so the
    # complete table is neither symmetric nor square
    Q = np.concatenate([P[::-1], P[:3]])
    for ka in kinds_a:
        for kb in kinds_b:
            check_call(out, P, P, ka, kb, 'stack', 'stack', f'exh-n{n}')
            check_call(out, P, Q, ka, kb, 'stack', 'stack', f'exh-n{n}')
            if not singles:
                continue
            for i in range(P.shape[0]):
                row = P[i:i + 1]
                for sa in ('1d', 'row'):
                    check_call(out, row, P, ka, kb, sa, 'stack', f'exh-n{n}')
                    check_call(out, P, row, ka, kb, 'stack', sa, f'exh-n{n}')
            if singles == 'pairs':
                for i in range(P.shape[0]):
                    for j in range(P.shape[0]):
                        for sa, sb in (('1d', '1d'), ('row', 'row'),
                                       ('1d', 'row'), ('row', '1d')):
                            check_call(out, P[i:i + 1], P[j:j + 1], ka, kb,
                                       sa, sb, f'exh-n{n}')


def algebra_block(out, rng, n, m):
    """Bilinear / symmetric / zero-on-equal asserted on observed outputs."""
    from panqec import bpauli
    A = rng.integers(0, 2, size=(m, 2 * n)).astype('uint8')
    B = rng.integers(0, 2, size=(m, 2 * n)).astype('uint8')
    C = rng.integers(0, 2, size=(m, 2 * n)).astype('uint8')
    ab = np.asarray(bpauli.bs_prod(A, B)).reshape(m, m)
    ba = np.asarray(bpauli.bs_prod(B, A)).reshape(m, m)
    aa = np.asarray(bpauli.bs_prod(A, A)).reshape(m, m)
    ac = np.asarray(bpauli.bs_prod(A, C)).reshape(m, m)
    abc = np.asarray(bpauli.bs_prod(A, B ^ C)).reshape(m, m)
    out.count('bs_prod_calls', 5)
    out.count('algebra_identities_checked', 3)
    desc = {'f': 'algebra', 'n': n, 'm': m,
            'ops': [int(A.sum()), int(B.sum()), int(C.sum())]}
    out.case(desc, True)
    if not np.array_equal(ab, ba.T):
        out.violation('bs_prod/dense/not-symmetric',
                      'bs_prod(a,b) != bs_prod(b,a)^T', desc)
    if np.any(np.diag(aa)):
        out.violation('bs_prod/dense/self-product-nonzero',
                      'bs_prod(a,a) has a 1 on the diagonal', desc)
    if not np.array_equal(abc % 2, (ab + ac) % 2):
        out.violation('bs_prod/dense/not-bilinear',
                      'bs_prod(a,b+c) != bs_prod(a,b)+bs_prod(a,c)', desc)


def planted(rng, n, overlap, m=3):
    """Rows whose X-part overlaps another row's Z-part in exactly `overlap`
    positions (so the un-reduced integer dot product is `overlap`)."""
    A = np.zeros((m, 2 * n), dtype=np.int64)
    B = np.zeros((m, 2 * n), dtype=np.int64)
    pos = rng.permutation(n)[:overlap]
    A[0, pos] = 1                   # X on `overlap` qubits
    B[0, n + pos] = 1               # Z on the same qubits
    # row 1: all-ones vs all-ones (overlap n + n)
    A[1, :] = 1
    B[1, :] = 1
    # row 2: X..X vs Z..Z with extra X part sharing half
    A[2, :n] = 1
    B[2, n:] = 1
    B[2, :n // 2] = 1
    return A, B


def random_block(out, rng, tier):
    reps = 3 if tier == 'quick' else 12
    overlaps = [254, 255, 256, 257, 258, 259, 260, 510, 511, 512, 513, 514]
    for ov in overlaps:
        for _ in range(reps if ov < 300 else max(1, reps // 2)):
            n = int(rng.integers(ov, 620))
            A, B = planted(rng, n, ov)
            ka, kb = rng.choice(KINDS[1:]), rng.choice(KINDS[1:])
            check_call(out, A, B, str(ka), str(kb), 'stack', 'stack',
                       f'planted-overlap-{ov}')
            check_call(out, A, B[0:1], str(ka), str(kb), 'stack', '1d',
                       f'planted-overlap-{ov}')
            check_call(out, A[0:1], B, 'uint8', 'uint8', '1d', 'stack',
                       f'planted-overlap-{ov}')
            check_call(out, A, B, 'uint8', 'uint8', 'stack', 'stack',
                       f'planted-overlap-{ov}')
            check_call(out, A, B, 'csr', 'uint8', 'stack', 'stack',
                       f'planted-overlap-{ov}')
            check_call(out, A, B, 'uint8', 'csr', 'stack', 'stack',
                       f'planted-overlap-{ov}')
            check_call(out, A, B, 'csr', 'csr', 'stack', 'stack',
                       f'planted-overlap-{ov}')
            check_call(out, A[0:1], B, 'csr0', 'csr0', 'row', 'stack',
                       f'planted-overlap-{ov}')
            check_call(out, A, B, 'int8', 'int8', 'stack', 'stack',
                       f'planted-overlap-{ov}')
            out.count('uint8_wrap_overlaps_checked')
    # random densities
    nrand = 40 if tier == 'quick' else 400
    for _ in range(nrand):
        n = int(rng.integers(1, 601))
        ma, mb = int(rng.integers(1, 9)), int(rng.integers(1, 9))
        da, db = rng.choice([0.0, 0.02, 0.3, 0.5, 0.9, 1.0], size=2)
        A = (rng.random((ma, 2 * n)) < da).astype(np.int64)
        B = (rng.random((mb, 2 * n)) < db).astype(np.int64)
        if rng.random() < 0.3:      # all-Y operator row
            A[0, :] = 1
        if rng.random() < 0.3:      # empty row
            B[-1, :] = 0
        ka, kb = str(rng.choice(KINDS)), str(rng.choice(KINDS))
        sa = 'stack' if ma > 1 or rng.random() < 0.5 else \
            str(rng.choice(['1d', 'row']))
        sb = 'stack' if mb > 1 or rng.random() < 0.5 else \
            str(rng.choice(['1d', 'row']))
        check_call(out, A, B, ka, kb, sa, sb, 'random')
    for _ in range(5 if tier == 'quick' else 40):
        algebra_block(out, rng, int(rng.integers(1, 300)),
                      int(rng.integers(1, 6)))


# ---------------------------------------------------------------- converters

def ref_string_to_bsf(s):
    x = [1 if c in 'XY' else 0 for c in s]
    z = [1 if c in 'ZY' else 0 for c in s]
    return np.array(x + z, dtype=np.int64)


def converter_case(out, s):
    """All conversion paths on one Pauli string."""
    from panqec import bpauli, bsparse
    n = len(s)
    ref = ref_string_to_bsf(s)
    desc = {'f': 'converters', 'string': s if n <= 12 else
            f'{s[:12]}..len{n}', 'd': gf2.pack(ref) % (1 << 61)}
    out.case(desc, nontrivial=bool(ref.any()))

    def bad(fn, what):
        out.violation(f'converter/{fn}', what,
                      dict(desc, string=s if n <= 64 else s[:64] + '...'))

    def eq(fn, got, want):
        got = np.asarray(got)
        out.count('converter_roundtrips')
        if got.shape != np.asarray(want).shape or \
                not np.array_equal(got.astype(np.int64), want):
            bad(fn, f'{fn}({desc["string"]}) = {got.tolist()[:16]}.., '
                    f'expected {np.asarray(want).tolist()[:16]}..')
            return False
        return True

    if n > 0:
        eq('pauli_to_bsf', bpauli.pauli_to_bsf(s), ref)
        eq('pauli_string_to_bvector', bpauli.pauli_string_to_bvector(s), ref)
    if n > 0:
        for dt in ('uint8', 'int64', 'uint64'):
            v = ref.astype(dt)
            back = bpauli.bvector_to_pauli_string(v)
            out.count('converter_roundtrips')
            if back != s:
                bad('bvector_to_pauli_string', f'{back!r} != {s!r} ({dt})')
            back = bpauli.bsf_to_pauli(v)
            out.count('converter_roundtrips')
            if back != s:
                bad('bsf_to_pauli', f'1-D {back!r} != {s!r} ({dt})')
        back = bpauli.bsf_to_pauli(np.array([ref, ref], dtype='uint8'))
        out.count('converter_roundtrips')
        if back != [s, s]:
            bad('bsf_to_pauli', f'2-D {back!r} != {[s, s]!r}')
        sp = csr_matrix(ref.astype('uint8').reshape(1, -1))
        back = bpauli.bsf_to_pauli(sp)
        out.count('converter_roundtrips')
        if back != [s]:
            bad('bsf_to_pauli', f'csr {back!r} != {[s]!r}')
        # weights
        w_ref = sum(1 for c in s if c != 'I')
        for rep, nm in ((ref.astype('uint8'), 'ndarray1d'),
                        (ref.astype('int64').reshape(1, -1), 'ndarray2d'),
                        (sp, 'csr')):
            if nm == 'csr' and sp.nnz != len(sp.data):
                continue
            try:
                w = call_pure(out, 'bsf_wt', bpauli.bsf_wt, rep)
            except Exception as e:
                bad('bsf_wt', f'{nm}: raised {type(e).__name__}: {e}')
                continue
            out.count('converter_roundtrips')
            if int(w) != w_ref:
                bad('bsf_wt', f'{nm}: weight {w} != {w_ref}')
        # integer representation
        iv = call_pure(out, 'bvector_to_int', bpauli.bvector_to_int,
                       ref.astype('uint8'))
        ref_int = int(''.join(str(int(b)) for b in ref), 2)
        out.count('converter_roundtrips')
        if iv != ref_int:
            bad('bvector_to_int', f'{iv} != {ref_int}')
        eq('int_to_bvector', bpauli.int_to_bvector(ref_int, n), ref)
        ints = call_pure(out, 'bvectors_to_ints', bpauli.bvectors_to_ints,
                         [ref.astype('uint8'), ref.astype('uint8')])
        if list(ints) != [ref_int, ref_int]:
            bad('bvectors_to_ints', f'{ints}')
        bv = bpauli.ints_to_bvectors([ref_int, 0], n)
        eq('ints_to_bvectors', bv[0], ref)
        eq('ints_to_bvectors', bv[1], np.zeros(2 * n, dtype=np.int64))
        # the caller owns what a converter returns: working in place on an
        # earlier result (p ^= q, v[k] = ...) must not change later ones
        for fn, call in (
                ('pauli_to_bsf', lambda: bpauli.pauli_to_bsf(s)),
                ('pauli_string_to_bvector',
                 lambda: bpauli.pauli_string_to_bvector(s)),
                ('int_to_bvector',
                 lambda: bpauli.int_to_bvector(ref_int, n))):
            r1 = call()
            if isinstance(r1, np.ndarray) and r1.flags.writeable:
                r1 ^= 1
                out.count('converter_results_modified_in_place')
            eq(fn + '/after-earlier-result-was-modified', call(), ref)
        bv2 = bpauli.ints_to_bvectors([ref_int, ref_int, 0], n)
        first = np.asarray(bv2[0])
        if first.flags.writeable:
            first ^= 1
            out.count('converter_results_modified_in_place')
        eq('ints_to_bvectors/entries-share-memory', bv2[1], ref)
        eq('ints_to_bvectors/after-earlier-result-was-modified',
           bpauli.ints_to_bvectors([ref_int], n)[0], ref)
        # bsparse round trips
        sp2 = bsparse.from_array(ref.astype('uint8').reshape(1, -1))
        eq('bsparse.from_array/to_array', bsparse.to_array(sp2)[0], ref)
        a, b = bsparse.hsplit(sp2)
        eq('bsparse.hsplit', bsparse.to_array(a)[0], ref[:n])
        eq('bsparse.hsplit', bsparse.to_array(b)[0], ref[n:])
        st = bsparse.vstack([sp2, sp2])
        a2, b2 = bsparse.hsplit(st)
        eq('bsparse.hsplit', bsparse.to_array(a2), np.array([ref[:n]] * 2))
        eq('bsparse.hsplit', bsparse.to_array(b2), np.array([ref[n:]] * 2))
        d = bsparse.dot(a, b)
        out.count('converter_roundtrips')
        if d != int(np.sum(ref[:n] & ref[n:]) % 2):
            bad('bsparse.dot', f'{d} != parity of Y count')


def converter_stack_case(out, strings):
    """Stacks of DIFFERENT operators through the stack converters, dense and
    csr: entry i of the result belongs to row i alone."""
    from panqec import bpauli
    M = np.array([ref_string_to_bsf(t) for t in strings], dtype='uint8')
    desc = {'f': 'stack-converters', 'rows': len(strings),
            'n': len(strings[0]), 'first': strings[0][:12]}
    out.case(desc, nontrivial=bool(M.any()))
    for rep, nm in ((M, 'dense'), (csr_matrix(M), 'csr'),
                    (M.astype(np.int64), 'dense-int64')):
        out.count('converter_roundtrips')
        back = call_pure(out, 'bsf_to_pauli', bpauli.bsf_to_pauli, rep)
        if list(back) != list(strings):
            i = next((i for i, (a, b) in enumerate(zip(back, strings))
                      if a != b), None)
            out.violation(f'converter/bsf_to_pauli/stack-{nm}',
                          f'row {i} of a {len(strings)}-row stack came back '
                          f'as {back[i] if i is not None else back!r} '
                          f'instead of {strings[i] if i is not None else ""}',
                          desc)
    ints = call_pure(out, 'bvectors_to_ints', bpauli.bvectors_to_ints,
                     [r for r in M])
    ref_ints = [int(''.join(str(int(b)) for b in r), 2) for r in M]
    out.count('converter_roundtrips')
    if [int(x) for x in ints] != ref_ints:
        out.violation('converter/bvectors_to_ints/stack',
                      'stack of different vectors -> wrong integers', desc)
    bv = bpauli.ints_to_bvectors(ref_ints, len(strings[0]))
    out.count('converter_roundtrips')
    if not np.array_equal(np.asarray(bv).astype(int), M.astype(int)):
        out.violation('converter/ints_to_bvectors/stack',
                      'stack of different integers -> wrong vectors', desc)


def brank_case(out, rng, m, n2, density):
    from panqec import bpauli
    M = (rng.random((m, n2)) < density).astype('uint8')
    if m > 2 and rng.random() < 0.5:
        M[-1] = M[0] ^ M[1]
    ref = gf2.rank(gf2.pack_rows(M))
    desc = {'f': 'brank', 'm': m, 'cols': n2, 'ones': int(M.sum())}
    out.case(desc, bool(M.any()))
    for rep, nm in ((M.copy(), 'dense'), (csr_matrix(M), 'csr'),
                    (M.astype(np.int64), 'dense-int64'),
                    (M.astype(bool), 'dense-bool')):
        r = call_pure(out, 'brank', bpauli.brank, rep)
        out.count('converter_roundtrips')
        if r != ref:
            out.violation(f'converter/brank/{nm}', f'brank={r}, rank={ref}',
                          dict(desc, M=M if M.size < 300 else None))


def deformation_case(out, rng, n):
    from panqec import bpauli
    idx = rng.random(n) < 0.5
    v = rng.integers(0, 2, size=2 * n).astype('uint8')
    M = rng.integers(0, 2, size=(3, 2 * n)).astype('uint8')
    ref = v.copy()
    ref[:n][idx], ref[n:][idx] = v[n:][idx], v[:n][idx]
    refM = M.copy()
    refM[:, :n][:, idx], refM[:, n:][:, idx] = M[:, n:][:, idx], M[:, :n][:, idx]
    # the qubit mask in every form a caller may hold it in
    masks = {'bool-array': idx, 'bool-list': [bool(x) for x in idx],
             'int64-array': idx.astype(np.int64),
             'uint8-array': idx.astype(np.uint8),
             'int-list': [int(x) for x in idx]}
    for mk, mask in masks.items():
        desc = {'f': 'apply_deformation', 'n': n, 'k': int(idx.sum()),
                'd': int(v.sum()), 'mask': mk}
        out.case(desc, bool(idx.any() and v.any()))
        out.count('converter_roundtrips')
        try:
            got = call_pure(out, 'apply_deformation',
                            bpauli.apply_deformation, mask, v.copy())
            gotM = call_pure(out, 'apply_deformation',
                             bpauli.apply_deformation, mask, M.copy())
        except Exception as e:
            from pv.common import panqec_frame
            if panqec_frame(e) is None:
                raise
            out.violation(f'converter/apply_deformation/{mk}/raises',
                          f'{type(e).__name__}: {e}', desc)
            continue
        if not np.array_equal(got, ref):
            out.violation(f'converter/apply_deformation/{mk}/1d',
                          'Hadamard on index set mismatch', desc)
        if not np.array_equal(gotM, refM):
            out.violation(f'converter/apply_deformation/{mk}/2d',
                          'Hadamard on index set mismatch (2-D)', desc)


def syndrome_linearity(out, rng, tier):
    """measure_syndrome is GF(2)-linear and equals the oracle syndrome, for
    errors handed over in several integer dtypes."""
    from pv import families as fam
    picks = [('Toric2DCode', (3, 4)), ('Planar2DCode', (2, 3)),
             ('RotatedPlanar3DCode', (2, 3, 2)), ('XCubeCode', (2, 2, 3)),
             ('Color666PlanarCode', (2, 2)), ('Toric3DCode', (2, 3, 2)),
             ('RhombicToricCode', (2, 2, 2))]
    if tier == 'thorough':
        picks += [('Toric3DCode', (5, 6, 7)),       # n = 630 > 255
                  ('Color3DCode', (2, 2, 2)), ('Color488Code', (2, 3)),
                  ('RotatedToric3DCode', (4, 3, 2)),
                  ('HollowRhombicCode', (3, 3, 4))]
    reps = 10 if tier == 'quick' else 60
    import scipy.sparse as sp
    for cls, size in picks:
        # ONE object per lattice: it is measured, deformed, measured again,
        # deformed again ... -- the syndrome must always be that of the
        # object's CURRENT generators (oracle: a freshly built object)
        code = fam.build(cls, size)
        steps = fam.deformations(cls)[:3]
        steps = steps + steps[1:2]
        for step, (dname, kw) in enumerate(steps):
            if dname is not None:
                code.deform(dname, **kw)
                out.count('measure_syndrome_after_deform_of_used_object')
            n = code.n
            H = gf2.pack_rows(fam.build(cls, size, dname, kw)
                              .stabilizer_matrix)
            for r in range(reps):
                p = float(rng.choice([0.02, 0.2, 0.5, 1.0]))
                e1 = (rng.random(2 * n) < p).astype(np.int64)
                e2 = (rng.random(2 * n) < p).astype(np.int64)
                if rng.random() < 0.1:
                    e1[:] = 1
                dt = str(rng.choice(DTYPES))
                form = ['1d', '1d', 'list', 'row2d', 'csr'][r % 5]

                def give(e):
                    if form == '1d':
                        return e.astype(dt)
                    if form == 'list':
                        return [int(x) for x in e]
                    if form == 'row2d':
                        return e.astype(dt).reshape(1, -1)
                    return sp.csr_matrix(e.astype('uint8').reshape(1, -1))
                s1 = np.asarray(code.measure_syndrome(give(e1)))
                s2 = np.asarray(code.measure_syndrome(give(e2)))
                s12 = np.asarray(code.measure_syndrome(give(e1 ^ e2)))
                out.count('measure_syndrome_calls', 3)
                desc = {'f': 'measure_syndrome', 'cls': cls, 'size': size,
                        'deformation': dname, 'kw': kw, 'dtype': dt,
                        'form': form, 'history_step': step,
                        'w': [int(e1.sum()), int(e2.sum())]}
                out.case(desc, bool(e1.any()))
                ref1 = np.array(gf2.syndrome(H, gf2.pack(e1), n))
                hist = '/after-history' if step else ''
                if form != '1d':
                    if s1.size != len(H):
                        out.violation(f'measure_syndrome/{form}/shape',
                                      f'shape {s1.shape} for {len(H)} '
                                      f'generators', desc)
                        continue
                    s1, s2, s12 = s1.ravel(), s2.ravel(), s12.ravel()
                if s1.shape != (len(H),):
                    out.violation('measure_syndrome/shape',
                                  f'shape {s1.shape} != ({len(H)},)', desc)
                elif not np.array_equal(s1.astype(np.int64), ref1):
                    out.violation(f'measure_syndrome{hist}/value',
                                  'syndrome differs from oracle',
                                  dict(desc, error=e1 if n < 40 else None))
                elif not np.array_equal((s1 + s2) % 2, s12 % 2):
                    out.violation(f'measure_syndrome{hist}/not-linear',
                                  's(e1+e2) != s(e1)+s(e2)', desc)


# ------------------------------------------------------------------- driver

def plan(tier, seed):
    tasks = []
    if tier == 'quick':
        tasks.append({'kind': 'exh', 'n': 1, 'ka': KINDS, 'kb': KINDS,
                      'singles': 'pairs', 'cost': 3})
        for ka in KINDS:
            tasks.append({'kind': 'exh', 'n': 2, 'ka': [ka], 'kb': KINDS,
                          'singles': 'pairs', 'cost': 12})
        tasks.append({'kind': 'exh', 'n': 3, 'ka': KINDS, 'kb': KINDS,
                      'singles': None, 'cost': 6})
        tasks.append({'kind': 'exh', 'n': 3, 'ka': ['uint8', 'csr', 'list'],
                      'kb': ['uint8', 'csr', 'int64'], 'singles': 'rows',
                      'cost': 10})
    else:
        for n in (1, 2):
            for ka in KINDS:
                tasks.append({'kind': 'exh', 'n': n, 'ka': [ka], 'kb': KINDS,
                              'singles': 'pairs', 'cost': 12 if n == 2 else 1})
        for ka in KINDS:
            for kb in KINDS:
                tasks.append({'kind': 'exh', 'n': 3, 'ka': [ka], 'kb': [kb],
                              'singles': 'pairs',
                              'cost': 60 if 'csr' in ka + kb else 25})
    nrand = 4 if tier == 'quick' else 16
    for i in range(nrand):
        tasks.append({'kind': 'random', 'i': i, 'seed': seed, 'tier': tier,
                      'cost': 15})
    if tier == 'thorough':
        tasks.append({'kind': 'contracts', 'cost': 400})
    tasks.append({'kind': 'conv', 'seed': seed, 'tier': tier, 'cost': 15})
    tasks.append({'kind': 'syn', 'seed': seed, 'tier': tier, 'cost': 15})
    return tasks


def run_task(task, out):
    k = task['kind']
    if k == 'contracts':
        from pv.pytest_contracts import run_contract_suite
        run_contract_suite(out, 'bs_prod', 'bs_prod')
        return
    if k == 'exh':
        exhaustive_block(out, task['n'], task['ka'], task['kb'],
                         task['singles'])
    elif k == 'random':
        rng = np.random.default_rng([task['seed'], 303, task['i']])
        random_block(out, rng, task['tier'])
    elif k == 'conv':
        rng = np.random.default_rng([task['seed'], 304])
        maxlen = 4
        for L in range(1, maxlen + 1):
            for tup in itertools.product('IXYZ', repeat=L):
                converter_case(out, ''.join(tup))
        for _ in range(30 if task['tier'] == 'quick' else 300):
            L = int(rng.integers(5, 700))
            probs = rng.dirichlet([0.5] * 4)
            converter_case(out, ''.join(rng.choice(list('IXYZ'), size=L,
                                                   p=probs)))
        for _ in range(40 if task['tier'] == 'quick' else 400):
            L = int(rng.integers(1, 40))
            k = int(rng.integers(2, 7))
            probs = rng.dirichlet([0.7] * 4)
            converter_stack_case(out, [''.join(rng.choice(
                list('IXYZ'), size=L, p=probs)) for _ in range(k)])
            out.count('stacks_of_different_operators_converted')
        for _ in range(30 if task['tier'] == 'quick' else 300):
            brank_case(out, rng, int(rng.integers(1, 14)),
                       int(rng.integers(1, 80)),
                       float(rng.choice([0.0, 0.1, 0.5, 0.9, 1.0])))
        for _ in range(20 if task['tier'] == 'quick' else 200):
            deformation_case(out, rng, int(rng.integers(1, 60)))
    elif k == 'syn':
        rng = np.random.default_rng([task['seed'], 305])
        syndrome_linearity(out, rng, task['tier'])


def classify(v):
    return None


def replay(v, out):
    w = v['witness']
    if w.get('f') == 'bs_prod' and 'A' in w:
        check_call(out, np.array(w['A']), np.array(w['B']), w['kinds'][0],
                   w['kinds'][1], w['shapes'][0], w['shapes'][1],
                   w.get('tag', 'replay'))
    elif w.get('f') == 'converters' and isinstance(w.get('string'), str) \
            and '..' not in w['string']:
        converter_case(out, w['string'])
    else:
        # large random operands: rerun the whole deterministic block
        for t in plan(v.get('tier', 'quick'), v.get('seed', 0)):
            if t['kind'] != 'exh':
                run_task(t, out)
