"""C17 — the reported distance d is the true code distance.

Monitor: code.d (as reported, and as recorded in a simulation's _inputs) vs
a bounded exact minimum-weight search written here: depth-first over Pauli
supports where every added (qubit, letter) must flip the lowest currently
unsatisfied stabilizer and lie above the first chosen qubit -- complete for
minimum-weight logical operators, because no proper sub-operator of one has
zero syndrome.  "Non-trivial logical" = zero syndrome and anticommutes with a
listed logical (complete by C01).  Verdict per code: held if the search below
d is exhausted without finding a logical (the listed representative of
weight d is the witness for "<= d"); violated with the lighter operator as
witness; inconclusive if the node budget runs out.
"""
from __future__ import annotations

import numpy as np

from pv import gf2
from pv import families as fam
from pv.common import panqec_frame

PROPERTY = 'C17'
LEVEL = 'exploration'
TECHNIQUE = ('runtime monitoring: code.d of every constructed object vs an '
             'independent bounded-exhaustive minimum-weight logical search '
             '(own symplectic arithmetic); metamorphic d(deformed) == '
             'd(undeformed)')
MANIFEST_TEXT = ('For every family size below the bound the reported d is '
                 'compared with an exhaustive search of all Pauli operators '
                 'of weight < d that could be part of a minimum-weight '
                 'logical; sizes whose search exceeds the node budget are '
                 'reported inconclusive per code and not claimed. Deformed '
                 'variants by the weight-preserving relabelling argument.')
MANIFEST_NOTE = ('Trusted: pv/gf2.py, completeness argument in the module '
                 'docstring, C01 (listed logicals complete). Integer '
                 'programming for larger n is outside this technique family.')
RULE = ('case = one (class, size) whose distance search terminated; distinct '
        'by (class,size); non-trivial = reported d >= 2 (a search below d '
        'actually ran)')
ASSUMPTIONS = ['supported size family = pv/families.py',
               'C01: the listed logicals generate all logical classes']
REQUIRED_COUNTERS = ['d_reread_on_one_object',
                     'public_properties_read_before_d',
                     'codes_decided', 'search_nodes', 'deformed_d_compared',
                     'inputs_d_compared']
SHARD_TIMEOUT = {'quick': 900, 'thorough': 5400}

BUDGET = {'quick': 1_500_000, 'thorough': 60_000_000}


class Budget(Exception):
    pass


def min_weight_below(code, limit, budget):
    """Search all candidate operators of weight <= limit.  Returns (witness
    or None, nodes).  Raises Budget when the node budget is exhausted."""
    n = code.n
    H = gf2.pack_rows(code.stabilizer_matrix)
    L = gf2.pack_rows(code.logicals_x) + gf2.pack_rows(code.logicals_z)
    m = len(H)
    # per (qubit, letter): mask of stabilizers flipped, mask of logicals
    # flipped.  letter 0:X 1:Y 2:Z as packed single-qubit operators
    sflip = [[0, 0, 0] for _ in range(n)]
    lflip = [[0, 0, 0] for _ in range(n)]
    for q in range(n):
        ops = [1 << q, (1 << q) | (1 << (n + q)), 1 << (n + q)]
        for a, op in enumerate(ops):
            sw = gf2.swap_halves(op, n)
            sm = 0
            for i, h in enumerate(H):
                if gf2.popcount(h & sw) & 1:
                    sm |= 1 << i
            lm = 0
            for i, l in enumerate(L):
                if gf2.popcount(l & sw) & 1:
                    lm |= 1 << i
            sflip[q][a] = sm
            lflip[q][a] = lm
    # support of each stabilizer: list of (q, letters that flip it)
    supp = [[] for _ in range(m)]
    for q in range(n):
        for i in range(m):
            letters = [a for a in range(3) if (sflip[q][a] >> i) & 1]
            if letters:
                supp[i].append((q, letters))
    maxflip = max((gf2.popcount(sflip[q][a]) for q in range(n)
                   for a in range(3)), default=1) or 1
    nodes = 0
    found = None

    def dfs(syn, lmask, used, ops, depth, q0):
        nonlocal nodes, found
        nodes += 1
        if nodes > budget:
            raise Budget()
        if syn == 0:
            if lmask:
                found = list(ops)
                return True
            return False          # a stabilizer: cannot be part of a minimum
        if depth >= limit:
            return False
        if gf2.popcount(syn) > (limit - depth) * maxflip:
            return False
        s = (syn & -syn).bit_length() - 1
        for q, letters in supp[s]:
            if q <= q0 or (used >> q) & 1:
                continue
            for a in letters:
                ops.append((q, a))
                if dfs(syn ^ sflip[q][a], lmask ^ lflip[q][a],
                       used | (1 << q), ops, depth + 1, q0):
                    return True
                ops.pop()
        return False

    for q0 in range(n):
        for a in range(3):
            if limit >= 1 and dfs(sflip[q0][a], lflip[q0][a], 1 << q0,
                                  [(q0, a)], 1, q0):
                return found, nodes
    return None, nodes


def reported_representative(code):
    """A listed logical of weight code.d that commutes with every generator."""
    n = code.n
    H = gf2.pack_rows(code.stabilizer_matrix)
    for M in (code.logicals_x, code.logicals_z):
        for v in gf2.pack_rows(M):
            if gf2.weight(v, n) == int(code.d) and \
                    not any(gf2.symp(h, v, n) for h in H):
                return v
    return None


def run_code(task, out):
    cls, size = task['cls'], tuple(task['size'])
    desc = {'cls': cls, 'size': list(size)}
    try:
        code = fam.build(cls, size)
        d = int(code.d)
    except Exception as e:
        where = panqec_frame(e)
        if where is None:
            raise
        if cls == 'Color666ToricCode' and size[0] != size[1]:
            out.count('skipped_known_C01_finding')
            return
        out.violation(f'{cls}/d-raises-{type(e).__name__}',
                      f'{type(e).__name__}: {e} at {where}', desc)
        return
    n = code.n
    rep = reported_representative(code)
    if rep is None:
        out.violation(f'{cls}/no-representative-of-weight-d',
                      f'd={d} but no listed logical has that weight and '
                      'commutes with the stabilizers', dict(desc, d=d))
        return
    try:
        wit, nodes = min_weight_below(code, d - 1, task['budget'])
    except Budget:
        out.count('search_nodes', task['budget'])
        out.count('codes_budget_exhausted')
        out.extra.setdefault('not_decided', []).append(f'{cls}{size}:d={d}')
        return
    out.count('search_nodes', nodes)
    out.count('codes_decided')
    out.extra.setdefault('decided', []).append(f'{cls}{size}:n={n}:d={d}')
    if wit is not None:
        op = {str(code.qubit_coordinates[q]): 'XYZ'[a] for q, a in wit}
        rect = 'rect' if len(set(size)) > 1 else 'cubic'
        tag = 'd-overstated'
        if cls == 'HollowPlanar3DCode' and \
                size[0] > 2 * (size[1] + size[2]) - 4:
            # the membrane wrapped around the hole (2(L_y+L_z)-4 qubits) is
            # lighter than the string along x that the class lists
            tag += '/x-longer-than-hole-perimeter'
        out.violation(
            f'{cls}/{rect}/{tag}',
            f'code.d={d} but the weight-{len(wit)} operator {op} commutes '
            f'with all stabilizers and acts non-trivially on the logical '
            f'qubits', dict(desc, d=d, lighter_logical=op))
    out.case(desc, nontrivial=d >= 2,
             sample=dict(desc, n=n, d=d, nodes=nodes))
    # deformed variants: weights are relabelling-invariant
    for dn, kw in fam.deformations(cls)[1:]:
        dd = int(fam.build(cls, size, dn, kw).d)
        out.count('deformed_d_compared')
        if dd != d:
            out.violation(f'{cls}/{dn}/deformed-d-differs',
                          f'd={d} undeformed but {dd} after {dn} {kw}',
                          dict(desc, deformation=dn, kwargs=kw))
    # d over the life of ONE object: read, deformed, read again (each offered
    # deformation in turn); and read after the public getters were called
    try:
        obj = fam.build(cls, size)
        seq = [int(obj.d)]
        for dn, kw in fam.deformations(cls)[1:3]:
            obj.deform(dn, **kw)
            seq.append(int(obj.d))
        obj2 = fam.build(cls, size)
        obj2.get_logicals_x()
        obj2.get_logicals_z()
        obj2.get_stabilizer_coordinates()
        seq.append(int(obj2.d))
        # d read after other derived data, in the orders other components
        # use: matrix then k then d (a simulation), syndrome first (a
        # decoder), and after every public property in both name orders
        obj3 = fam.build(cls, size)
        obj3.stabilizer_matrix
        obj3.k
        seq.append(int(obj3.d))
        obj4 = fam.build(cls, size)
        obj4.measure_syndrome(np.zeros(2 * obj4.n, dtype='uint8'))
        seq.append(int(obj4.d))
        props = sorted(nm for nm in dir(type(obj4))
                       if not nm.startswith('_') and nm != 'd' and
                       isinstance(getattr(type(obj4), nm, None), property))
        for order in (props, props[::-1]):
            objp = fam.build(cls, size)
            for nm in order:
                try:
                    getattr(objp, nm)
                except Exception:
                    pass        # e.g. Hx on a non-CSS code
            seq.append(int(objp.d))
            out.count('public_properties_read_before_d', len(order))
        out.count('d_reread_on_one_object', len(seq))
        if any(x != d for x in seq):
            out.violation(f'{cls}/d-changes-over-object-life',
                          f'd={d} on a fresh object but {seq} when read, '
                          'deformed and read again / after the public '
                          'getters were called', desc)
    except Exception as e:
        where = panqec_frame(e)
        if where is None:
            raise
        out.violation(f'{cls}/d-raises-{type(e).__name__}',
                      f'{type(e).__name__}: {e} at {where} (object reused)',
                      desc)
    # the d recorded with simulation inputs
    from panqec.simulation import DirectSimulation
    from panqec.error_models import PauliErrorModel
    from panqec.decoders import BeliefPropagationOSDDecoder
    em = PauliErrorModel(1 / 3, 1 / 3, 1 / 3)
    sim = DirectSimulation(code, em,
                           BeliefPropagationOSDDecoder(code, em, 0.1), 0.1,
                           verbose=False)
    out.count('inputs_d_compared')
    if int(sim._inputs['code']['d']) != d:
        out.violation(f'{cls}/inputs-d-differs',
                      f"_inputs records d={sim._inputs['code']['d']}, "
                      f'code.d={d}', desc)


BOUNDS = {'quick': {2: 5, 3: 3}, 'thorough': {2: 7, 3: 4}}
NMAX = {'quick': 160, 'thorough': 420}


def plan(tier, seed):
    tasks = []
    for cls in fam.ALL_CLASSES:
        B = BOUNDS[tier][fam.dimension(cls)]
        if cls in ('RhombicToricCode', 'Color3DCode'):
            B = 4 if tier == 'thorough' else 2
        for s in fam.sizes_upto(cls, B):
            ne = fam.n_estimate(cls, s)
            if ne > NMAX[tier]:
                continue
            if cls == 'Color666ToricCode' and s[0] != s[1]:
                continue       # C01 known finding: not a valid code object
            tasks.append({'cls': cls, 'size': list(s),
                          'budget': BUDGET[tier],
                          'cost': ne ** 2 * min(s) + 200})
    # needle / slab shapes: one long direction, small cross-section
    needles = [('HollowPlanar3DCode', (9, 3, 3)),
               ('HollowPlanar3DCode', (9, 2, 2)),
               ('HollowPlanar3DCode', (3, 9, 3)),
               ('Planar3DCode', (7, 2, 2)), ('Planar3DCode', (2, 2, 7)),
               ('RotatedPlanar3DCode', (7, 2, 2)),
               ('RhombicPlanarCode', (2, 2, 7)),
               ('HollowRhombicCode', (2, 2, 7)),
               ('Toric3DCode', (7, 2, 2)), ('XCubeCode', (6, 2, 2)),
               ('Planar2DCode', (9, 2)), ('RotatedPlanar2DCode', (2, 11)),
               ('RotatedToric3DCode', (2, 4, 2)),
               ('RotatedToric3DCode', (4, 2, 2)),
               ('RotatedToric3DCode', (2, 6, 1)),
               ('RotatedToric3DCode', (4, 6, 1)),
               ('Toric2DCode', (2, 7)), ('Toric2DCode', (6, 3)),
               ('Color488Code', (1, 3)), ('Color488Code', (3, 1)),
               # strips hundreds of qubits long: the listed logicals weigh
               # 256 and more
               ('RotatedPlanar2DCode', (2, 256)),
               ('RotatedPlanar2DCode', (2, 257)),
               ('RotatedPlanar2DCode', (3, 257)),
               ('Planar2DCode', (2, 260)), ('Toric2DCode', (2, 300)),
               ('Color666PlanarCode', (3, 1)), ('Color666PlanarCode', (2, 5)),
               ('Color666PlanarCode', (4, 1)),
               ('RhombicToricCode', (4, 2, 2)),
               ('RhombicToricCode', (2, 2, 4)),
               ('XCubeCode', (2, 2, 5))]
    if tier == 'thorough':
        needles += [('HollowPlanar3DCode', (10, 3, 3)),
                    ('HollowPlanar3DCode', (9, 3, 4)),
                    ('HollowPlanar3DCode', (9, 4, 3)),
                    ('HollowPlanar3DCode', (3, 3, 9)),
                    ('HollowRhombicCode', (9, 3, 3)),
                    ('HollowRhombicCode', (3, 9, 3)),
                    ('RotatedPlanar3DCode', (9, 3, 3)),
                    ('RotatedPlanar3DCode', (2, 7, 2)),
                    ('RotatedPlanar3DCode', (2, 2, 7)),
                    ('Planar3DCode', (2, 7, 2)), ('Planar3DCode', (9, 3, 3)),
                    ('RhombicPlanarCode', (7, 2, 2)),
                    ('RhombicPlanarCode', (2, 7, 2)),
                    ('RotatedToric3DCode', (2, 8, 2)),
                    ('RotatedToric3DCode', (8, 2, 3)),
                    ('Toric3DCode', (2, 2, 8)), ('XCubeCode', (2, 7, 2))]
    have = {(t['cls'], tuple(t['size'])) for t in tasks}
    for cls, s in needles:
        if (cls, s) not in have:
            tasks.append({'cls': cls, 'size': list(s),
                          'budget': max(BUDGET[tier], 8_000_000),
                          'cost': 3e6})
    if tier == 'thorough':
        for cls, s in (('Toric2DCode', (8, 8)), ('Planar2DCode', (8, 7)),
                       ('RotatedPlanar2DCode', (9, 9)),
                       ('Toric3DCode', (5, 5, 5)),
                       ('Color666PlanarCode', (7, 7)),
                       ('RotatedPlanar3DCode', (5, 5, 5))):
            tasks.append({'cls': cls, 'size': list(s),
                          'budget': BUDGET[tier], 'cost': 1e7})
    return tasks


def run_task(task, out):
    run_code(task, out)


def finalize(run, tier, seed):
    run.extra['node_budget_per_code'] = BUDGET[tier]
    nd = run.extra.get('not_decided', [])
    run.extra['not_decided'] = sorted(nd)[:60]
    run.extra['n_not_decided'] = len(nd)
    dec = run.extra.get('decided', [])
    run.extra['decided'] = sorted(dec)[:40]


def classify(v):
    m = v['mechanism']
    if m.startswith('HollowPlanar3DCode/') and \
            m.endswith('/d-overstated/x-longer-than-hole-perimeter'):
        return 'C17:HollowPlanar3DCode/x-longer-than-hole-perimeter'
    return None


def replay(v, out):
    w = v['witness']
    run_code({'cls': w['cls'], 'size': w['size'],
              'budget': BUDGET['thorough']}, out)
