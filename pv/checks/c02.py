"""C02 — parity-check matrix is the faithful image of the lattice definition.

Monitors (all on live objects, judged by own BSF conversion and pv.gf2):
  * row i of code.stabilizer_matrix == BSF(get_stabilizer(coord_i));
    coordinates distinct / disjoint; supports inside the qubit set, non-empty
  * to_bsf / from_bsf mutually inverse on random operators with Y's,
    1-D, (1,2n) dense and csr shapes
  * CSS: masks partition rows, Hx/Hz are the masked blocks, X-(Z-)syndrome
    depends only on the Z-(X-)part of the error
  * randomly generated user-defined StabilizerCode subclasses ("programs")
  * indexing identical under different PYTHONHASHSEED values (child
    processes print a digest of every index / matrix; all must coincide)
"""
from __future__ import annotations

import hashlib
import json
import os
import subprocess
import sys

import numpy as np

from pv import gf2
from pv import families as fam

PROPERTY = 'C02'
LEVEL = 'exploration'
TECHNIQUE = ('runtime monitoring: post-condition oracle (own coordinate->BSF '
             'conversion) on stabilizer_matrix / to_bsf / from_bsf / Hx / Hz '
             'of library and generated user-defined codes; cross-process '
             'digest comparison over interpreter hash seeds')
MANIFEST_TEXT = ('Every row of every constructed parity-check matrix is '
                 'recomputed from get_stabilizer() by an independent '
                 'converter; bijection of to_bsf/from_bsf on Y-carrying '
                 'operators; CSS block structure; hundreds to thousands of '
                 'random user-defined codes; index digests compared across '
                 'child interpreters with different PYTHONHASHSEED.')
MANIFEST_NOTE = ('Trusted: pv/gf2.py; supported-size table. stabilizer_types '
                 '(built through a set) is not an index and is not compared '
                 'across hash seeds.')
RULE = ('case = one code object (library: class,size,deformation,kwargs; '
        'user-defined: generated class spec digest) or one hash-seed digest '
        'comparison; non-trivial = object has >=1 stabilizer with non-empty '
        'support; distinct by descriptor')
ASSUMPTIONS = ['supported size family = pv/families.py']
REQUIRED_COUNTERS = ['rows_compared', 'bsf_roundtrips', 'css_objects',
                     'history_steps_checked', 'unsorted_csr_rows',
                     'csr_rows_with_stored_zeros',
                     'user_defined_codes', 'hash_seed_children',
                     'y_operators_roundtripped',
                     'from_bsf_other_sparse_containers',
                     'user_defined_codes_with_checks_of_weight_256_or_more',
                     'originals_judged_after_being_copied']

LETTER_BITS = {'X': (1, 0), 'Y': (1, 1), 'Z': (0, 1)}


def ref_to_bsf(op, qindex, n):
    v = 0
    for loc, p in op.items():
        i = qindex[loc]
        x, z = LETTER_BITS[p]
        if x:
            v ^= 1 << i
        if z:
            v ^= 1 << (n + i)
    return v


def check_object(code, desc, out, mech, rng, deep=True):
    qc = list(code.qubit_coordinates)
    sc = list(code.stabilizer_coordinates)
    n, m = len(qc), len(sc)

    def bad(tag, what, extra=None):
        out.violation(f'{mech}/{tag}', what, dict(desc, **(extra or {})))

    if code.n != n or code.n_stabilizers != m:
        bad('counts', f'n={code.n} vs {n} coordinates, '
            f'n_stabilizers={code.n_stabilizers} vs {m}')
    if len(set(qc)) != n:
        bad('duplicate-qubit-coordinate', 'qubit coordinates not distinct')
    if len(set(sc)) != m:
        bad('duplicate-stabilizer-coordinate',
            'stabilizer coordinates not distinct')
    if set(qc) & set(sc):
        bad('qubit-stabilizer-overlap', 'coordinate is both qubit and '
            'stabilizer', {'loc': sorted(set(qc) & set(sc))[:3]})
    qindex = {loc: i for i, loc in enumerate(qc)}
    if dict(code.qubit_index) != qindex:
        bad('qubit_index', 'qubit_index != enumeration of coordinates')
    if dict(code.stabilizer_index) != {loc: i for i, loc in enumerate(sc)}:
        bad('stabilizer_index', 'stabilizer_index != enumeration')
    Hm = code.stabilizer_matrix
    if Hm.shape != (m, 2 * n):
        bad('H-shape', f'H shape {Hm.shape} != ({m},{2 * n})')
        return
    if Hm.nnz and (Hm.data.max() > 1):
        bad('H-not-binary', f'H holds entry {Hm.data.max()}')
    H = gf2.pack_rows(Hm)
    nonempty = 0
    for i, loc in enumerate(sc):
        op = code.get_stabilizer(loc)
        outside = [q for q in op if q not in qindex]
        if outside:
            bad('support-outside-qubits',
                f'stabilizer {loc} acts on non-qubit {outside[0]}',
                {'loc': loc})
            continue
        if len(op) == 0:
            bad('empty-stabilizer', f'stabilizer {loc} has empty support',
                {'loc': loc})
        else:
            nonempty += 1
        ref = ref_to_bsf(op, qindex, n)
        out.count('rows_compared')
        if H[i] != ref:
            bad('row-mismatch',
                f'row {i} of H is not the BSF image of get_stabilizer({loc})',
                {'row': i, 'loc': loc,
                 'H_row': gf2.unpack(H[i], 2 * n) if n <= 40 else None,
                 'expected': gf2.unpack(ref, 2 * n) if n <= 40 else None})
            break
    # logicals are images of get_logicals_*
    for nm, getter, mat in (('x', code.get_logicals_x, code.logicals_x),
                            ('z', code.get_logicals_z, code.logicals_z)):
        ops = getter()
        L = gf2.pack_rows(mat) if len(ops) else []
        if len(L) != len(ops):
            bad(f'logicals_{nm}-count', 'row count != operator count')
            continue
        for j, op in enumerate(ops):
            if any(q not in qindex for q in op):
                bad(f'logicals_{nm}-outside', 'logical acts on non-qubit')
                continue
            out.count('rows_compared')
            if L[j] != ref_to_bsf(op, qindex, n):
                bad(f'logicals_{nm}-row-mismatch',
                    f'logicals_{nm}[{j}] != BSF image of the operator')
    # to_bsf / from_bsf bijection, with Y's
    reps = 6 if deep else 2
    for r in range(reps):
        dens = [0.05, 0.3, 0.7, 1.0][r % 4]
        sel = rng.random(n) < dens
        letters = rng.choice(['X', 'Y', 'Z'], size=n, p=[0.3, 0.4, 0.3])
        op = {qc[i]: str(letters[i]) for i in range(n) if sel[i]}
        ref = ref_to_bsf(op, qindex, n)
        v = np.asarray(code.to_bsf(op))
        out.count('bsf_roundtrips')
        if sum(1 for p in op.values() if p == 'Y'):
            out.count('y_operators_roundtripped')
        if v.shape != (2 * n,) or gf2.pack(v) != ref or v.max(initial=0) > 1:
            bad('to_bsf', 'to_bsf(op) != reference BSF image',
                {'op': {str(k): p for k, p in list(op.items())[:8]}})
            continue
        from scipy.sparse import csr_matrix
        import scipy.sparse as _sp
        row8 = v.astype('uint8').reshape(1, -1)
        for shape_nm, arg in (('1d', v), ('row', v.reshape(1, -1)),
                              ('csr', csr_matrix(v.reshape(1, -1))),
                              ('1d-int64', v.astype(np.int64)),
                              ('1d-bool', v.astype(bool)),
                              ('csc', _sp.csc_matrix(row8)),
                              ('coo', _sp.coo_matrix(row8)),
                              ('lil', _sp.lil_matrix(row8)),
                              ('dok', _sp.dok_matrix(row8)),
                              ('csr_array', _sp.csr_array(row8)),
                              ('coo_array', _sp.coo_array(row8))):
            if shape_nm in ('csc', 'coo', 'lil', 'dok', 'csr_array',
                            'coo_array'):
                out.count('from_bsf_other_sparse_containers')
            back = code.from_bsf(arg)
            out.count('bsf_roundtrips')
            if back != op:
                bad(f'from_bsf/{shape_nm}',
                    'from_bsf(to_bsf(op)) != op',
                    {'op': {str(k): p for k, p in list(op.items())[:8]},
                     'back': {str(k): p for k, p in list(back.items())[:8]}})
                break
        # csr row assembled bit by bit in random order (bsparse.insert_mod2
        # appends, so the index array is unsorted: Z part may precede X)
        from panqec import bsparse
        row = bsparse.zero_row(2 * n)
        bits = [i for i in range(2 * n) if (ref >> i) & 1]
        rng.shuffle(bits)
        for b in bits:
            bsparse.insert_mod2(int(b), row)
        back = code.from_bsf(row)
        out.count('bsf_roundtrips')
        out.count('unsorted_csr_rows')
        if back != op:
            bad('from_bsf/csr-unsorted-indices',
                'from_bsf(csr row with unsorted indices) != op',
                {'op': {str(k): p for k, p in list(op.items())[:8]},
                 'back': {str(k): p for k, p in list(back.items())[:8]},
                 'indices': row.indices[:16]})
        # csr row formed as a mod-2 sum in sparse form (the library's idiom
        # `s = a + b; s.data %= 2`): carries explicitly stored zeros
        pa = (rng.random(2 * n) < 0.4).astype('uint8')
        pb = pa ^ np.asarray(v, dtype='uint8')
        srow = csr_matrix(pa.reshape(1, -1)) + csr_matrix(pb.reshape(1, -1))
        srow.data %= 2
        back = code.from_bsf(srow.tocsr())
        out.count('bsf_roundtrips')
        out.count('csr_rows_with_stored_zeros')
        if back != op:
            bad('from_bsf/csr-stored-zeros',
                'from_bsf(sparse mod-2 sum with stored zeros) != op',
                {'op': {str(k): p for k, p in list(op.items())[:8]},
                 'back': {str(k): p for k, p in list(back.items())[:8]}})
        # vector -> operator -> vector
        vec = (rng.random(2 * n) < dens / 2).astype('uint8')
        op2 = code.from_bsf(vec)
        v2 = np.asarray(code.to_bsf(op2))
        out.count('bsf_roundtrips')
        if not np.array_equal(v2.astype(np.int64), vec.astype(np.int64)):
            bad('to_bsf-of-from_bsf', 'to_bsf(from_bsf(v)) != v')
    # CSS structure
    xi = np.asarray(code.x_indices)
    zi = np.asarray(code.z_indices)
    ref_x = np.array([(h & ((1 << n) - 1)) != 0 for h in H], dtype=bool)
    ref_z = np.array([(h >> n) != 0 for h in H], dtype=bool)
    if not (np.array_equal(xi, ref_x) and np.array_equal(zi, ref_z)):
        bad('row-masks', 'x_indices / z_indices != "row has an X (Z) part"')
    ref_css = not np.any(ref_x & ref_z)
    if bool(code.is_css) != ref_css:
        bad('is_css', f'is_css={code.is_css}, reference {ref_css}')
    if ref_css and m > 0:
        out.count('css_objects')
        if nonempty == m and not np.all(xi ^ zi):
            bad('css-partition', 'x_indices xor z_indices is not all-true')
        Hx = gf2.pack_rows(code.Hx) if code.Hx.shape[0] else []
        Hz = gf2.pack_rows(code.Hz) if code.Hz.shape[0] else []
        mask = (1 << n) - 1
        ref_Hx = [h & mask for h, f in zip(H, ref_x) if f]
        ref_Hz = [h >> n for h, f in zip(H, ref_z) if f]
        if code.Hx.shape != (len(ref_Hx), n) or Hx != ref_Hx:
            bad('Hx', 'Hx is not the X block of the X-type rows')
        if code.Hz.shape != (len(ref_Hz), n) or Hz != ref_Hz:
            bad('Hz', 'Hz is not the Z block of the Z-type rows')
        for r in range(3 if deep else 1):
            e = (rng.random(2 * n) < 0.3).astype('uint8')
            e2 = e.copy()
            e2[:n] = (rng.random(n) < 0.5)          # same Z part, other X
            e3 = e.copy()
            e3[n:] = (rng.random(n) < 0.5)          # same X part, other Z
            s, s2, s3 = (np.asarray(code.measure_syndrome(v))
                         for v in (e, e2, e3))
            sx, sx2 = code.extract_x_syndrome(s), code.extract_x_syndrome(s2)
            sz, sz3 = code.extract_z_syndrome(s), code.extract_z_syndrome(s3)
            out.count('css_sector_checks')
            if len(sx) != int(ref_x.sum()) or len(sz) != int(ref_z.sum()):
                bad('extract-length', 'extract_x/z_syndrome length wrong')
            elif not np.array_equal(sx, sx2):
                bad('x-syndrome-depends-on-x-part',
                    'X-syndrome changed when only the X part of e changed')
            elif not np.array_equal(sz, sz3):
                bad('z-syndrome-depends-on-z-part',
                    'Z-syndrome changed when only the Z part of e changed')
            else:
                # and they equal Hx . e_z  /  Hz . e_x
                ez = gf2.pack(e[n:])
                ex = gf2.pack(e[:n])
                rx = [gf2.popcount(h & ez) & 1 for h in ref_Hx]
                rz = [gf2.popcount(h & ex) & 1 for h in ref_Hz]
                if [int(b) for b in sx] != rx or [int(b) for b in sz] != rz:
                    bad('sector-syndrome-value',
                        'extract_x/z_syndrome != Hx.e_z / Hz.e_x')
    return nonempty


# --------------------------------------------------------------------------
# user-defined codes ("programs")
# --------------------------------------------------------------------------

def make_user_class(spec):
    """spec: dict(dim, qubits, stabs[(loc, {qloc: letter})], lx, lz)."""
    from panqec.codes import StabilizerCode
    qubits = [tuple(q) for q in spec['qubits']]
    stabs = [(tuple(loc), {tuple(k): p for k, p in op})
             for loc, op in spec['stabs']]
    smap = dict(stabs)
    lx = [{tuple(k): p for k, p in op} for op in spec['lx']]
    lz = [{tuple(k): p for k, p in op} for op in spec['lz']]
    dim = spec['dim']

    class UserCode(StabilizerCode):
        dimension = dim
        label = 'user-defined'

        def get_qubit_coordinates(self):
            return list(qubits)

        def get_stabilizer_coordinates(self):
            return [loc for loc, _ in stabs]

        def qubit_axis(self, location):
            return 'x'

        def stabilizer_type(self, location):
            return 'vertex' if sum(location) % 2 == 0 else 'face'

        def get_stabilizer(self, location):
            return dict(smap[location])

        def get_logicals_x(self):
            return [dict(o) for o in lx]

        def get_logicals_z(self):
            return [dict(o) for o in lz]

    return UserCode


def gen_wide_spec(rng):
    """A CSS code on hundreds of qubits with a few very heavy checks
    (weights at and around multiples of 256) -- the [[n, n-2, 2]]
    error-detecting family and relatives."""
    n = int(rng.choice([255, 256, 257, 300, 512, 513, 600]))
    qubits = [(i, 0) for i in range(n)]
    stabs = []
    heavy = [w for w in (n, 256, 512, 255, 100) if w <= n]
    for j, w in enumerate(heavy[:int(rng.integers(2, 5))]):
        letter = 'XZ'[j % 2]
        start = int(rng.integers(0, n - w + 1))
        stabs.append(((j, 1), [(qubits[i], letter)
                               for i in range(start, start + w)]))
    order = rng.permutation(len(stabs))
    stabs = [stabs[int(i)] for i in order]
    return {'dim': 2, 'qubits': qubits, 'stabs': stabs,
            'lx': [[(qubits[0], 'X'), (qubits[1], 'X')]],
            'lz': [[(qubits[0], 'Z'), (qubits[n - 1], 'Z')]], 'css': True}


def gen_user_spec(rng):
    if rng.random() < 0.08:
        return gen_wide_spec(rng)
    dim = int(rng.choice([2, 3]))
    ncomp = int(rng.choice([2, 3, 4]))
    n = int(rng.integers(1, 14))
    m = int(rng.integers(1, 12))
    css = bool(rng.random() < 0.4)
    pts = set()
    while len(pts) < n + m:
        pts.add(tuple(int(x) for x in rng.integers(-6, 9, size=ncomp)))
    pts = list(pts)
    rng.shuffle(pts)
    qubits, slocs = pts[:n], pts[n:]
    stabs = []
    for loc in slocs:
        w = int(rng.integers(1, n + 1))
        sup = rng.choice(n, size=w, replace=False)
        if css:
            letter = str(rng.choice(['X', 'Z']))
            op = [(qubits[int(i)], letter) for i in sup]
        else:
            op = [(qubits[int(i)], str(rng.choice(['X', 'Y', 'Z'])))
                  for i in sup]
        stabs.append((loc, op))
    k = int(rng.integers(0, 3))
    lx, lz = [], []
    for _ in range(k):
        for L in (lx, lz):
            w = int(rng.integers(1, n + 1))
            sup = rng.choice(n, size=w, replace=False)
            L.append([(qubits[int(i)], str(rng.choice(['X', 'Y', 'Z'])))
                      for i in sup])
    return {'dim': dim, 'qubits': qubits, 'stabs': stabs, 'lx': lx, 'lz': lz,
            'css': css}


def run_user(task, out):
    rng = np.random.default_rng([task['seed'], 202, task['i']])
    for j in range(task['count']):
        spec = gen_user_spec(rng)
        cls = make_user_class(spec)
        size = (2, 3) if spec['dim'] == 2 else (2, 3, 4)
        desc = {'user_defined': True, 'spec_digest': digest_obj(spec),
                'n': len(spec['qubits']), 'm': len(spec['stabs']),
                'ncomp': len(spec['qubits'][0]), 'css': spec['css']}
        try:
            code = cls(*size)
            ne = check_object(code, dict(desc, spec=spec), out,
                              'user-defined', rng, deep=True)
        except Exception as e:
            import traceback
            out.violation(f'user-defined/raises-{type(e).__name__}',
                          f'{type(e).__name__}: {e}',
                          dict(desc, spec=spec,
                               tb=traceback.format_exc()[-800:]))
            continue
        out.count('user_defined_codes')
        if desc['n'] >= 255:
            out.count('user_defined_codes_with_checks_of_weight_256_or_more')
        out.case(desc, nontrivial=bool(ne), sample=desc if j < 2 else None)


def digest_obj(x):
    from pv.common import digest
    return digest(x)


# --------------------------------------------------------------------------
# hash-seed independence
# --------------------------------------------------------------------------

HASH_ITEMS = [
    ('Toric2DCode', (2, 3)), ('Planar2DCode', (3, 2)),
    ('RotatedPlanar2DCode', (3, 4)), ('Color666PlanarCode', (2, 2)),
    ('Color666ToricCode', (1, 1)), ('Color488Code', (1, 2)),
    ('Toric3DCode', (2, 2, 3)), ('Planar3DCode', (2, 2, 2)),
    ('RotatedPlanar3DCode', (2, 3, 2)), ('RotatedToric3DCode', (2, 3, 1)),
    ('RhombicToricCode', (2, 2, 2)), ('RhombicPlanarCode', (2, 2, 2)),
    ('HollowPlanar3DCode', (3, 3, 3)), ('HollowRhombicCode', (2, 2, 3)),
    ('XCubeCode', (2, 2, 2)), ('Color3DCode', (2, 2, 2)),
]


def index_digest():
    """Runs in a child interpreter with its own PYTHONHASHSEED."""
    res = {}
    for cls, size in HASH_ITEMS:
        for dname, kw in fam.deformations(cls)[:2]:
            code = fam.build(cls, size, dname, kw)
            h = hashlib.blake2b(digest_size=12)
            h.update(repr(list(code.qubit_coordinates)).encode())
            h.update(repr(list(code.stabilizer_coordinates)).encode())
            h.update(repr(list(code.qubit_index.items())).encode())
            h.update(repr(list(code.stabilizer_index.items())).encode())
            H = code.stabilizer_matrix.tocsr()
            H.sort_indices()
            h.update(H.indptr.tobytes() + H.indices.tobytes())
            h.update(np.ascontiguousarray(code.logicals_x).tobytes())
            h.update(np.ascontiguousarray(code.logicals_z).tobytes())
            for t in sorted(code.stabilizer_types):
                h.update(repr(list(code.type_index(t).items())).encode())
            res[f'{cls}{size}{dname}'] = h.hexdigest()
    res['_hash_of_a_string'] = hash('panqec')     # shows the seeds differ
    print('DIGEST ' + json.dumps(res))


def run_hash(task, out):
    from pv.common import child_env, PYTHON
    results = {}
    for hs in task['seeds']:
        env = child_env()
        env['PYTHONHASHSEED'] = str(hs)
        try:
            p = subprocess.run(
                [PYTHON, '-c',
                 'from pv.checks import c02; c02.index_digest()'],
                env=env, capture_output=True, text=True, timeout=300)
        except subprocess.TimeoutExpired:
            out.inconclusive_case(f'hash-seed child {hs} timed out')
            continue
        line = [ln for ln in p.stdout.splitlines() if ln.startswith('DIGEST ')]
        if p.returncode != 0 or not line:
            out.inconclusive_case(f'hash-seed child {hs} failed: '
                                  f'{p.stderr[-400:]}')
            continue
        results[str(hs)] = json.loads(line[0][7:])
        out.count('hash_seed_children')
    if len(results) < 2:
        out.inconclusive_case('fewer than two hash-seed children')
        return
    seeds = list(results)
    base = results[seeds[0]]
    distinct_hashes = len({results[s]['_hash_of_a_string'] for s in seeds})
    out.count('distinct_string_hashes_seen', distinct_hashes)
    if distinct_hashes < 2:
        out.inconclusive_case('children did not get different hash seeds')
    for item in base:
        if item == '_hash_of_a_string':
            continue
        vals = {s: results[s][item] for s in seeds}
        desc = {'hash_seed_item': item, 'seeds': seeds}
        out.case(desc, True, sample=dict(desc, digest=base[item])
                 if item.startswith('Toric2D') else None)
        if len(set(vals.values())) != 1:
            out.violation('hash-seed/index-differs',
                          f'indexing of {item} depends on PYTHONHASHSEED',
                          dict(desc, digests=vals))


# --------------------------------------------------------------------------

BOUNDS = {'quick': {2: 4, 3: 3}, 'thorough': {2: 7, 3: 4}}
NMAX = {'quick': 300, 'thorough': 900}


def plan(tier, seed):
    tasks = []
    for cls in fam.ALL_CLASSES:
        B = BOUNDS[tier][fam.dimension(cls)]
        if cls in ('RhombicToricCode', 'Color3DCode'):
            B = 4
        if cls == 'Color3DCode' and tier == 'quick':
            B = 2
        for s in fam.sizes_upto(cls, B):
            if fam.n_estimate(cls, s) > NMAX[tier]:
                continue
            tasks.append({'kind': 'lib', 'cls': cls, 'size': list(s),
                          'seed': seed,
                          'cost': fam.n_estimate(cls, s) *
                          len(fam.deformations(cls))})
    nuser = 240 if tier == 'quick' else 3200
    per = 40 if tier == 'quick' else 100
    for i in range(nuser // per):
        tasks.append({'kind': 'user', 'i': i, 'count': per, 'seed': seed,
                      'cost': per * 30})
    seeds = [0, 1, 2] if tier == 'quick' else \
        [0, 1, 2, 3, 5, 8, 13, 21, 4242, 99999, 'random', 'random']
    # several children per task keep the comparison inside one shard
    for chunk in range(0, len(seeds), 4):
        sub = seeds[chunk:chunk + 4]
        if chunk > 0:
            sub = [seeds[0]] + sub
        tasks.append({'kind': 'hash', 'seeds': sub, 'cost': 4000})
    return tasks


def run_lib(task, out):
    """Fresh object per (deformation, kwargs) AND one long-lived object that
    is checked, deformed, checked, deformed again ... (the lazily cached
    masks / blocks must follow every deformation)."""
    cls, size = task['cls'], tuple(task['size'])
    rng = np.random.default_rng([task['seed'], 201, len(cls), sum(size)])
    known_c01 = cls == 'Color666ToricCode' and size[0] != size[1]
    deep = fam.n_estimate(cls, size) < 120
    chain = None
    defs = fam.deformations(cls)
    order = list(range(len(defs)))
    for step, di in enumerate(order + order[1:2]):
        dname, kw = defs[di]
        desc = {'cls': cls, 'size': list(size), 'deformation': dname,
                'kwargs': kw}
        mech = cls + (f'/{dname}' if dname else '')
        try:
            if step < len(defs):
                code = fam.build(cls, size, dname, kw)
                ne = check_object(code, desc, out, mech, rng, deep=deep)
                out.count('library_objects')
                out.case(desc, nontrivial=bool(ne))
                # the object is copied / serialised (handed to a batch, a
                # worker, a cache) -- the ORIGINAL must read as before
                import copy
                import pickle
                how = ['deepcopy', 'copy', 'pickle'][(step + len(cls)) % 3]
                try:
                    if how == 'deepcopy':
                        copy.deepcopy(code)
                    elif how == 'copy':
                        copy.copy(code)
                    else:
                        pickle.dumps(code)
                except Exception:
                    pass        # not picklable: nothing was handed on
                check_object(code, dict(desc, after=how), out,
                             mech + f'/original-after-{how}', rng, deep=False)
                out.count('originals_judged_after_being_copied')
            # same-object history
            if chain is None:
                chain = fam.build(cls, size)
                hist = []
            if dname is not None:
                chain.deform(dname, **kw)
            hist.append([dname, kw])
            hdesc = dict(desc, history=list(hist))
            ne = check_object(chain, hdesc, out, mech + '/after-history',
                              rng, deep=False)
            out.count('history_steps_checked')
            out.case(hdesc, nontrivial=bool(ne) and len(hist) > 1)
        except KeyError:
            # C01's known rectangular Color666Toric failure also stops here
            if known_c01:
                out.count('skipped_known_C01_finding')
                continue
            raise


def run_task(task, out):
    {'lib': run_lib, 'user': run_user, 'hash': run_hash}[task['kind']](
        task, out)


def classify(v):
    return None


def replay(v, out):
    w = v['witness']
    rng = np.random.default_rng(0)
    if w.get('user_defined'):
        spec = w['spec']
        cls = make_user_class(spec)
        code = cls(*((2, 3) if spec['dim'] == 2 else (2, 3, 4)))
        check_object(code, {'user_defined': True}, out, 'user-defined', rng)
    elif 'cls' in w:
        code = fam.build(w['cls'], tuple(w['size']), w.get('deformation'),
                         w.get('kwargs') or {})
        check_object(code, w, out, w['cls'], rng)
    else:
        run_hash({'seeds': [0, 1, 2]}, out)
