"""C16 — threshold estimation recovers a planted finite-size-scaling threshold.

Generator: (p_th, nu, A, B, C) from a well-conditioned box; 3-5 distances,
7-13 error rates around p_th; per point N trials with n_fail = round(N f)
("on the ansatz") or a binomial draw (statistical variant); written as real
result files (same schema the simulator writes), split and shuffled.
Monitor: Analysis(dir).thresholds row vs the planted value, its own
confidence interval, the data range, fit_status, and equality across three
orderings of the same data.
"""
from __future__ import annotations

import contextlib
import gzip
import io
import json
import math
import os
import shutil
import tempfile
import warnings

import numpy as np

from pv.common import panqec_frame

PROPERTY = 'C16'
LEVEL = 'exploration'
TECHNIQUE = ('runtime monitoring: planted-parameter oracle -- synthetic result '
             'files generated on the documented ansatz are pushed through the '
             'real Analysis threshold pipeline and the reported threshold, '
             'interval and status are compared with the planted truth; '
             'metamorphic order-independence')
MANIFEST_TEXT = ('Dozens (quick) to hundreds (thorough) of planted data sets '
                 'in a stated parameter box go through the real '
                 'find/read/aggregate/fit pipeline; the fitted threshold must '
                 'be within a frozen tolerance of p_th, inside its own '
                 '16-84% interval and the data range, flagged success, and '
                 'identical under file/row reordering. Sampled over the box.')
MANIFEST_NOTE = ('Tolerance (fraction of the data half-window) was calibrated '
                 'once on the unchanged tree and is frozen in this file; the '
                 'box is mine and printed in the evidence. scipy curve_fit is '
                 'exercised, not trusted.')
RULE = ('case = one planted data set analysed (x3 orderings); distinct by '
        'planted parameter tuple; non-trivial = >=3 distances and >=7 rates '
        '(always)')
ASSUMPTIONS = ['ansatz A + Bx + Cx^2, x = (p - p_th) d^nu (property '
               'statement and fit_function)']
REQUIRED_COUNTERS = ['datasets_analysed', 'orderings_compared',
                     'exact_count_datasets', 'binomial_datasets',
                     'datasets_with_out_of_codespace_trials',
                     'datasets_with_A_above_half',
                     'datasets_touching_zero_or_one',
                     'analyses_given_a_list_of_files',
                     'best_fit_parameters_compared',
                     'datasets_with_chunked_records',
                     'directories_with_two_families',
                     'fitted_points_compared_with_planted_counts',
                     'analyses_of_a_rewritten_path',
                     'analyses_with_other_tables_read_first']
SHARD_TIMEOUT = {'quick': 900, 'thorough': 3600}

BOX = {'p_th': (0.03, 0.3), 'nu': (0.7, 1.6), 'A': (0.15, 0.7),
       'B': (0.5, 2.5), 'C_over_B': (0.0, 1.0)}
# frozen after calibration on the unchanged tree (see DESIGN.md, C16)
TOL_EXACT = 0.05        # fraction of the half-window, exact counts
TOL_BINOM = 0.35        # fraction of the half-window, binomial counts
N_EXACT = 20000
N_BINOM = 4000


def planted(p, d, prm):
    p_th, nu, A, B, C = prm
    x = (p - p_th) * d ** nu
    return A + B * x + C * x * x


def draw(rng):
    for _ in range(1000):
        p_th = float(rng.uniform(*BOX['p_th']))
        nu = float(rng.uniform(*BOX['nu']))
        A = float(rng.uniform(*BOX['A']))
        B = float(rng.uniform(*BOX['B']))
        C = float(rng.uniform(*BOX['C_over_B'])) * B
        nd = int(rng.integers(3, 6))
        ds = sorted(rng.choice([3, 4, 5, 6, 7, 8, 9, 10, 11, 12, 13],
                               size=nd, replace=False).tolist())
        m = int(rng.integers(9, 14))
        prm = (p_th, nu, A, B, C)
        dmax = max(ds)
        w = 0.3 * p_th
        ok = False
        for _ in range(60):
            ps = np.round(p_th + w * np.linspace(-1, 1, m), 6)
            f = planted(ps, dmax, prm)
            mono = np.all(np.diff(f) > 0)
            if f.min() > 0.03 and f.max() < 0.97 and mono and \
                    len(set(ps.tolist())) == m:
                ok = True
                break
            w *= 0.85
        if not ok or w < 1e-4:
            continue
        # the curves of different distances must be distinguishable at the
        # window edge, otherwise the crossing is not identifiable
        fe = [planted(ps[-1], d, prm) for d in ds]
        if max(fe) - min(fe) < 0.02:
            continue
        drop = [int(x) for x in rng.integers(0, 3, size=len(ds))]
        # some data sets touch the floor / ceiling: the largest code has
        # exactly zero failures at the lowest rate (or only failures at the
        # highest) while still lying on the ansatz
        touch = str(rng.choice(['no', 'no', 'no', 'zero', 'one']))
        if touch != 'no':
            f = planted(ps, dmax, prm)
            A2 = A - float(f.min()) if touch == 'zero' else \
                A + (1.0 - float(f.max()))
            prm2 = (p_th, nu, A2, B, C)
            allf = np.array([planted(ps, d, prm2) for d in ds])
            if not (0.1 <= A2 <= 0.9) or allf.min() < -1e-12 or \
                    allf.max() > 1 + 1e-12:
                touch = 'no'
            else:
                prm = prm2
                drop[-1] = 0        # the largest code keeps its end points
        return {'prm': prm, 'ds': ds, 'ps': ps.tolist(), 'w': w,
                'drop': drop, 'touch': touch}
    raise RuntimeError('could not draw a well-conditioned data set')


def record(L, p, n_trials, n_fail, rng, out_of_codespace=0.0, axis=None):
    k = 2
    ee = np.zeros((n_trials, 2 * k), dtype=int)
    fail_idx = rng.choice(n_trials, size=n_fail, replace=False)
    ee[fail_idx, int(rng.integers(0, 2 * k))] = 1
    succ = np.ones(n_trials, dtype=bool)
    succ[fail_idx] = False
    # a share of the failed trials did not return to the code space (as
    # with BP-OSD / sweep decoders); the share depends on the distance
    cs = np.ones(n_trials, dtype=bool)
    if out_of_codespace > 0 and n_fail:
        share = min(0.9, out_of_codespace * (1 + 0.25 * (L % 5)))
        cs[fail_idx[:int(share * n_fail)]] = False
    return {'inputs': {
        'code': {'name': 'Toric2DCode',
                 'parameters': {'L_x': L, 'L_y': L, 'L_z': None},
                 'n': 2 * L * L, 'k': k, 'd': L},
        'error_model': {'name': 'PauliErrorModel', 'parameters': {
            'r_x': 1 / 3, 'r_y': 1 / 3, 'r_z': 1 / 3,
            'deformation_name': 'XZZX' if axis else None,
            'deformation_kwargs': {'deformation_axis': axis} if axis
            else {}}},
        'decoder': {'name': 'MatchingDecoder',
                    'parameters': {'error_type': None, 'weights': None}},
        'error_rate': p, 'method': {'name': 'direct', 'parameters': {}}},
        'results': {'n_runs': n_trials, 'wall_time': 1.0,
                    'effective_error': ee.tolist(),
                    'success': succ.tolist(),
                    'codespace': cs.tolist()}}


TRUTH = {}


def chunked(L, N, n_fail, rng):
    """Split one point's trials over several records (jobs of a few trials
    each, fewer per job for larger codes); some small records hold only
    failures, some only successes.  Totals are preserved."""
    sizes = [2, 2, 4, 12, 3][:1 + L % 5]
    out = []
    left_n, left_f = N, n_fail
    for i, sz in enumerate(sizes):
        if left_n - sz < 1:
            break
        kind = (i + L) % 3
        f = min(sz, left_f) if kind == 0 else 0 if kind == 1 else \
            min(sz // 2, left_f)
        if left_f - f > left_n - sz:        # the rest must fit
            f = left_f - (left_n - sz)
        out.append((sz, f))
        left_n -= sz
        left_f -= f
    out.append((left_n, left_f))
    return out


def write_dataset(rng, ds, root, mode, ooc=0.0, second=None, chunks=False):
    N = N_EXACT if mode == 'exact' else N_BINOM
    recs = []
    fams = [(ds, 'x' if second else None)]
    if second:
        fams.append((second, 'y'))
    for fam_ds, axis in fams:
        for li, L in enumerate(fam_ds['ds']):
            ps_L = list(fam_ds['ps'])
            # distances are sampled on unequal grids: drop end points
            drop = fam_ds.get('drop', [0] * len(fam_ds['ds']))[li]
            if drop and len(ps_L) - 2 * drop >= 7:
                ps_L = ps_L[drop:len(ps_L) - drop]
            for p in ps_L:
                f = float(planted(p, L, fam_ds['prm']))
                f = min(max(f, 0.0), 1.0)
                n_fail = int(round(N * f)) if mode == 'exact' else \
                    int(rng.binomial(N, f))
                parts = chunked(L, N, n_fail, rng) if chunks else \
                    [(N, n_fail)]
                for ci, (n_c, f_c) in enumerate(parts):
                    recs.append((L, p, n_c, f_c, ci, axis))
                TRUTH[(root, axis, L, round(p, 6))] = (N, n_fail)
    orderings = []
    for o in range(3):
        d = os.path.join(root, f'o{o}')
        os.makedirs(d)
        order = rng.permutation(len(recs))
        nfiles = int(rng.integers(1, 6))
        files = [[] for _ in range(nfiles)]
        for j, i in enumerate(order):
            files[int(rng.integers(0, nfiles))].append(recs[int(i)])
        # compact representation: a record's lists are regenerated from
        # (N, n_fail) with a fixed per-record seed so that all orderings hold
        # the same trials
        for fi, fl in enumerate(files):
            if not fl:
                continue
            data = [record(L, p, n, nf, np.random.default_rng(
                [int(L), int(round(p * 1e6)), ci]), ooc, axis)
                for L, p, n, nf, ci, axis in fl]
            if o == 2:
                # per-job directories reusing one file name, mixed
                # compression
                jd = os.path.join(d, f'job_{fi}')
                os.makedirs(jd)
                if fi % 2:
                    with open(os.path.join(jd, 'results.json'), 'w') as f:
                        json.dump(data, f)
                    continue
                name = os.path.join(jd, 'results.json.gz')
            else:
                name = os.path.join(d, f'{chr(122 - fi)}{fi}.json.gz')
            with gzip.open(name, 'wb', compresslevel=1) as f:
                f.write(json.dumps(data).encode())
        orderings.append(d)
    return orderings


def analyse(path, as_list=False, expect=1, read_first=None):
    from panqec.analysis import Analysis
    arg = path
    if as_list:
        # the way `panqec analyze` and scripts hand over results: a list of
        # files (here: every file of the directory, in directory order)
        arg = sorted(os.path.join(dp, f) for dp, _, fs in os.walk(path)
                     for f in fs)
    with warnings.catch_warnings():
        warnings.simplefilter('ignore')
        with contextlib.redirect_stdout(io.StringIO()):
            an = Analysis(arg, verbose=False)
            if read_first == 'trunc_results':
                # what the plotting helpers and save() read first
                an.trunc_results
            elif read_first == 'sector_thresholds':
                an.sector_thresholds
            th = an.thresholds
    if len(th) != expect:
        return None, (f'{len(th)} threshold rows for {expect} (code, noise, '
                      'decoder) combination(s) in the directory')
    th = th.sort_values('p_th_fss')
    res = an.get_results()
    pts = {}
    for _, rr in res.iterrows():
        kw = (rr['error_model_params'] or {}).get('deformation_kwargs') or {}
        pts[(kw.get('deformation_axis'), int(rr['d']),
             round(float(rr['error_rate']), 6))] = (int(rr['n_trials']),
                                                    int(rr['n_fail']))
    analyse.points = pts
    return [th.iloc[i] for i in range(expect)], None


def sigma_pth(ds, N):
    """Cramer-Rao bound on the standard deviation of the fitted threshold
    for binomial counts of N trials per point on the planted curve."""
    p_th, nu, A, B, C = ds['prm']
    P, D = [], []
    for li, L in enumerate(ds['ds']):
        ps = list(ds['ps'])
        dr = ds.get('drop', [0] * len(ds['ds']))[li]
        if dr and len(ps) - 2 * dr >= 7:
            ps = ps[dr:len(ps) - dr]
        P += ps
        D += [L] * len(ps)
    P, D = np.array(P), np.array(D, dtype=float)
    x = (P - p_th) * D ** nu
    f = np.clip(A + B * x + C * x * x, 1e-6, 1 - 1e-6)
    J = np.stack([-(B + 2 * C * x) * D ** nu,
                  (B + 2 * C * x) * x * np.log(D), np.ones_like(x), x,
                  x * x], axis=1)
    F = J.T @ (J * (N / (f * (1 - f)))[:, None])
    try:
        return float(np.sqrt(np.linalg.inv(F)[0, 0]))
    except np.linalg.LinAlgError:
        return float('inf')


def judge_family(out, ds, rows, mode, desc, mech, j):
    p_th, nu, A, B, C = ds['prm']
    r = rows[0]
    est = float(r['p_th_fss'])
    err = abs(est - p_th) / ds['w']
    out.extra.setdefault('rel_errors_' + mode, []).append(
        round(err, 4))
    w = dict(desc, p_th_fss=est, left=float(r['p_th_fss_left']),
             right=float(r['p_th_fss_right']),
             fit_status=r['fit_status'], rel_err=round(err, 4))
    tol = TOL_EXACT
    if mode != 'exact':
        # statistical tolerance: 6 Cramer-Rao sigmas plus the systematic
        # allowance of the exact variant, never above the frozen TOL_BINOM
        tol = min(TOL_BINOM, 6 * sigma_pth(ds, N_BINOM) / ds['w']
                  + TOL_EXACT)
        w['tolerance'] = round(tol, 4)
    if r['fit_status'] != 'success':
        out.violation(f'{mech}/fit-not-successful',
                      f"fit_status={r['fit_status']!r} on planted "
                      f'data', w)
    if not (err <= tol):
        out.violation(f'{mech}/threshold-off',
                      f'p_th_fss={est:.6f} vs planted {p_th:.6f}: '
                      f'{err:.3f} of the half-window (tol {tol})', w)
    fp = np.asarray(r['fss_params'], dtype=float)
    if mode == 'exact' and r['fit_status'] == 'success':
        out.count('best_fit_parameters_compared')
        perr = abs(fp[0] - p_th) / ds['w'] if np.isfinite(fp[0]) \
            else float('inf')
        if not (perr <= TOL_EXACT):
            out.violation(f'{mech}/best-fit-threshold-off',
                          f'fss_params[0]={fp[0]:.6f} (the best-fit '
                          f'threshold) vs planted {p_th:.6f}: '
                          f'{perr:.3f} of the half-window',
                          dict(w, fss_params=fp))
        elif not np.allclose(fp, [p_th, nu, A, B, C], rtol=0.1,
                             atol=0.05):
            out.violation(f'{mech}/best-fit-parameters-off',
                          f'fss_params={np.round(fp, 4).tolist()} '
                          'vs planted '
                          f'{[round(x, 4) for x in ds["prm"]]}',
                          dict(w, fss_params=fp))
    if not (r['p_th_fss_left'] <= est <= r['p_th_fss_right']):
        out.violation(f'{mech}/estimate-outside-own-interval',
                      f'p_th_fss {est} not in [{r["p_th_fss_left"]},'
                      f' {r["p_th_fss_right"]}]', w)
    if not (r['p_left'] <= est <= r['p_right']):
        out.violation(f'{mech}/estimate-outside-data-range',
                      f'p_th_fss {est} not in data range '
                      f'[{r["p_left"]}, {r["p_right"]}]', w)
    for o, r2 in enumerate(rows[1:], 1):
        out.count('orderings_compared')
        for col in ('p_th_fss', 'p_th_fss_left', 'p_th_fss_right'):
            if abs(float(r2[col]) - float(r[col])) > 1e-12:
                out.violation(f'{mech}/order-dependent',
                              f'{col} differs between two orderings '
                              f'of the same files/rows: {r[col]} vs '
                              f'{r2[col]}', w)
                break
        if np.max(np.abs(np.asarray(r2['fss_params'], dtype=float) -
                         np.asarray(r['fss_params'], dtype=float))) \
                > 1e-12:
            out.violation(f'{mech}/order-dependent-params',
                          'fss_params differ between orderings', w)
    out.case(desc, True, sample=w if j == 0 else None)


def rewrite_scenario(out, rng, base, mech0):
    """Live monitoring / a reused output path: the files of one data set
    are analysed, replaced by another data set under the same names within
    the same second, and analysed again in the same process."""
    a, b = draw(rng), draw(rng)
    if abs(a['prm'][0] - b['prm'][0]) < 0.5 * (a['w'] + b['w']):
        return
    root = tempfile.mkdtemp(prefix='c16rw-', dir=base)
    try:
        live = os.path.join(root, 'live')
        mt = {}
        for which, ds in (('first', a), ('second', b)):
            src = write_dataset(rng, ds, os.path.join(root, which), 'exact')[0]
            os.makedirs(live, exist_ok=True)
            for f in os.listdir(live):
                if f not in os.listdir(src):
                    os.unlink(os.path.join(live, f))
            for f in sorted(os.listdir(src)):
                dst = os.path.join(live, f)
                shutil.copyfile(os.path.join(src, f), dst)
                if f in mt:     # same name: keep it inside the same second
                    os.utime(dst, (mt[f] + 0.4, mt[f] + 0.4))
                else:
                    t = float(int(os.stat(dst).st_mtime)) + 0.1
                    os.utime(dst, (t, t))
                    mt[f] = t
            p_th = ds['prm'][0]
            desc = {'mode': 'exact', 'scenario': f'path rewritten ({which})',
                    'p_th': round(p_th, 6), 'half_window': round(ds['w'], 6),
                    'distances': ds['ds']}
            try:
                rows, err = analyse(live)
            except Exception as e:
                where = panqec_frame(e)
                if where is None:
                    raise
                out.violation(f'{mech0}/rewritten-path/raises-'
                              f'{type(e).__name__}',
                              f'{type(e).__name__}: {e} at {where}', desc)
                return
            out.count('analyses_of_a_rewritten_path')
            if err:
                out.violation(f'{mech0}/rewritten-path/row-count', err, desc)
                return
            est = float(rows[0]['p_th_fss'])
            rel = abs(est - p_th) / ds['w']
            if not (rel <= TOL_EXACT) or rows[0]['fit_status'] != 'success':
                out.violation(
                    f'{mech0}/rewritten-path/threshold-off',
                    f'{which} data set under the same file names: '
                    f'p_th_fss={est:.6f} status={rows[0]["fit_status"]!r} '
                    f'vs planted {p_th:.6f} ({rel:.3f} of the half-window)',
                    desc)
                return
            for k in [k for k in TRUTH if k[0].startswith(root)]:
                del TRUTH[k]
    finally:
        for k in [k for k in TRUTH if k[0].startswith(root)]:
            del TRUTH[k]
        shutil.rmtree(root, ignore_errors=True)


def run_block(task, out):
    rng = np.random.default_rng([task['seed'], 1616, task['i']])
    base = os.environ.get('PV_WORK') or tempfile.gettempdir()
    if task['i'] % 2 == 0:
        rewrite_scenario(out, rng, base, 'thresholds/exact')
    for j in range(task['n']):
        ds = draw(rng)
        mode = 'exact' if (j + task['i']) % 3 != 2 else 'binomial'
        root = tempfile.mkdtemp(prefix='c16-', dir=base)
        p_th, nu, A, B, C = ds['prm']
        if ds.get('touch', 'no') != 'no':
            out.count('datasets_touching_zero_or_one')
        desc = {'mode': mode, 'touch': ds.get('touch', 'no'),
                'p_th': round(p_th, 6), 'nu': round(nu, 4),
                'A': round(A, 4), 'B': round(B, 4), 'C': round(C, 4),
                'distances': ds['ds'], 'n_rates': len(ds['ps']),
                'half_window': round(ds['w'], 6)}
        mech = f'thresholds/{mode}'
        try:
            ooc = float(rng.choice([0.0, 0.0, 0.3, 0.6]))
            desc['out_of_codespace_share'] = ooc
            if ooc:
                out.count('datasets_with_out_of_codespace_trials')
            if A > 0.5:
                out.count('datasets_with_A_above_half')
            # binomial variant only where the data can decide: families whose
            # Cramer-Rao sigma exceeds 6% of the half-window are given exact
            # counts instead
            if mode == 'binomial' and any(
                    sigma_pth(fd, N_BINOM) / fd['w'] > 0.06 for fd in [ds]):
                mode = 'exact'
                desc['mode'] = mode
                mech = f'thresholds/{mode}'
                out.count('binomial_variants_below_statistical_power')
            # trials of one point delivered as several small records
            chunks = (j + task['i']) % 2 == 1
            desc['chunked'] = chunks
            if chunks:
                out.count('datasets_with_chunked_records')
            # a second planted family in the same directory whose noise model
            # differs only inside deformation_kwargs
            second = None
            if rng.random() < 0.3:
                d2 = draw(rng)
                if abs(d2['prm'][0] - p_th) > 1.5 * (d2['w'] + ds['w']) and \
                        not (mode == 'binomial' and
                             sigma_pth(d2, N_BINOM) / d2['w'] > 0.06):
                    second = d2
                    out.count('directories_with_two_families')
            desc['two_families'] = second is not None
            ords = write_dataset(rng, ds, root, mode, ooc, second=second,
                                 chunks=chunks)
            fams = sorted([ds] + ([second] if second else []),
                          key=lambda x: x['prm'][0])
            rows = []
            for oi, o in enumerate(ords):
                try:
                    row, err = analyse(
                        o, as_list=(oi == 1), expect=len(fams),
                        read_first=[None, 'sector_thresholds',
                                    'trunc_results'][oi])
                    if oi:
                        out.count('analyses_with_other_tables_read_first')
                    if oi == 1:
                        out.count('analyses_given_a_list_of_files')
                except Exception as e:
                    where = panqec_frame(e)
                    if where is None:
                        raise
                    out.violation(f'{mech}/raises-{type(e).__name__}',
                                  f'{type(e).__name__}: {e} at {where}', desc)
                    rows = None
                    break
                if err:
                    out.violation(f'{mech}/row-count', err, desc)
                    rows = None
                    break
                rows.append(row)
                # the points the fit was made on are the planted ones
                want = {k[1:]: v for k, v in TRUTH.items() if k[0] == root}
                out.count('fitted_points_compared_with_planted_counts',
                          len(want))
                if analyse.points != want:
                    diff = [(k, analyse.points.get(k), v)
                            for k, v in sorted(want.items(), key=repr)
                            if analyse.points.get(k) != v][:3]
                    out.violation(f'{mech}/points-not-the-planted-counts',
                                  'the (n_trials, n_fail) the analysis holds '
                                  'for some points are not the totals of the '
                                  f'records: {diff}', desc)
                    rows = None
                    break
            if not rows:
                continue
            out.count('datasets_analysed')
            out.count('exact_count_datasets' if mode == 'exact'
                      else 'binomial_datasets')
            for fi, fds in enumerate(fams):
                fp_th, fnu, fA, fB, fC = fds['prm']
                fdesc = dict(desc, p_th=round(fp_th, 6), nu=round(fnu, 4),
                             A=round(fA, 4), B=round(fB, 4), C=round(fC, 4),
                             distances=fds['ds'],
                             half_window=round(fds['w'], 6), family=fi)
                judge_family(out, fds, [rr[fi] for rr in rows], mode, fdesc,
                             mech, j)
        finally:
            for k in [k for k in TRUTH if k[0] == root]:
                del TRUTH[k]
            shutil.rmtree(root, ignore_errors=True)


def plan(tier, seed):
    n = 32 if tier == 'quick' else 640
    per = 2 if tier == 'quick' else 10
    return [{'i': i, 'n': per, 'seed': seed, 'cost': per * 4000}
            for i in range(n // per)]


def run_task(task, out):
    run_block(task, out)


def finalize(run, tier, seed):
    for mode in ('exact', 'binomial'):
        e = sorted(run.extra.get('rel_errors_' + mode, []))
        if e:
            run.extra['rel_error_summary_' + mode] = {
                'n': len(e), 'median': e[len(e) // 2], 'p90':
                e[int(len(e) * 0.9)], 'max': e[-1]}
        run.extra.pop('rel_errors_' + mode, None)
    run.extra['box'] = {k: list(v) for k, v in BOX.items()}
    run.extra['tolerances'] = {'exact': TOL_EXACT, 'binomial': TOL_BINOM,
                               'N_exact': N_EXACT, 'N_binomial': N_BINOM}


def classify(v):
    return None


def replay(v, out):
    print('replay: data sets are generated from VERIF_SEED; re-run '
          f"VERIF_SEED={v.get('seed', 0)} ./check C16 {v.get('tier')}")
