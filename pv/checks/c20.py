"""C20 — the visualizer backend serves every offered choice with faithful data.

Monitor: the real Flask application (GUI().app.test_client()) is driven
through the menu model of main.js -- code names from /code-names, deformation
in {"None"} + /deformation-names, picture in {kitaev, rotated}, L in 1..12,
optionally "coprime" (L+1, L[, L]) -- restricted to the supported family and
to a payload budget; every response is compared with a library object built
directly (own GF(2) packing for the matrices), the decoder lists with the
classes' own allowed_codes, /decode and /new-errors with the library decoder
and noise model under the same generator state.
"""
from __future__ import annotations

import contextlib
import io
import json
import math
import re

import numpy as np

from pv import gf2
from pv import families as fam
from pv.common import panqec_frame

PROPERTY = 'C20'
LEVEL = 'exploration'
TECHNIQUE = ('runtime monitoring: the real Flask app is driven through its '
             'test client over the enumerated menu; every JSON body is '
             'checked against directly constructed library objects '
             '(reference-model oracle at the HTTP boundary)')
MANIFEST_TEXT = ('All 16 menu codes x deformation names x {kitaev, rotated} '
                 'x menu sizes L (and coprime L+1) inside the supported '
                 'family and the stated payload budget are requested; '
                 'status, completeness of every drawable entry, index order, '
                 'H and logicals, offered decoders, decode and new-errors '
                 'answers are compared with the library. Menu sizes above '
                 'the budget are not claimed.')
MANIFEST_NOTE = ('Payload budget (entries of H) is in coverage.budget. '
                 'Display transforms of locations are tolerated up to 1.5 '
                 'lattice units / the sqrt(2) z-scale; everything else is '
                 'exact. MBP is exercised on n<=13 only.')
RULE = ('case = one HTTP request; distinct by (endpoint, code, size, '
        'deformation, picture, decoder, noise); non-trivial = /code-data, '
        '/decode or /new-errors request on a code with >=1 stabilizer')
ASSUMPTIONS = ['menu model read from panqec/gui/js/main.js: L in 1..12, '
               'coprime adds 1 to Lx, rotated checkbox for every code',
               'supported size family = pv/families.py']
REQUIRED_COUNTERS = ['code_data_requests', 'decode_requests',
                     'new_errors_requests', 'decoder_name_requests',
                     'rotated_picture_requests', 'coprime_requests',
                     'deformed_requests', 'repeated_requests_compared',
                     'extended_gui_requests', 'extended_gui_decodes',
                     'polygons_compared_with_supports',
                     'decode_requests_with_syndromes_of_thousands_of_entries']
SHARD_TIMEOUT = {'quick': 900, 'thorough': 5400}

BUDGET = {'quick': 3 * 10 ** 5, 'thorough': 4 * 10 ** 6}
HEX = re.compile(r'^0x[0-9a-fA-F]{6}$')


def gui_maps():
    import panqec.gui._gui as g
    return g.codes, g.decoders, g.noise_directions


def make_client():
    from panqec.gui import GUI
    gui = GUI()
    return gui.app.test_client()


def post(client, url, payload):
    with contextlib.redirect_stdout(io.StringIO()), \
            contextlib.redirect_stderr(io.StringIO()):
        r = client.post(url, json=payload)
    body = None
    if r.status_code == 200:
        body = json.loads(r.data.decode())
    return r.status_code, body


def size_of(cls_name, L, coprime):
    dim = fam.dimension(cls_name)
    s = [L] * dim
    if coprime:
        s[0] += 1
    return tuple(s)


def display_ok(returned, coord, rotated):
    """Location returned for a coordinate: the coordinate's spatial
    components -- the trailing ones for (axis, x, y, z) style coordinates,
    the leading ones for the 2-D colour codes' (x, y, pauli-index) -- up to
    the classes' display shifts (<= 1.5) and the sqrt(2) z-scale."""
    r = [float(x) for x in returned]
    if len(coord) < len(r):
        return False
    cands = [[float(x) for x in coord[-len(r):]],
             [float(x) for x in coord[:len(r)]]]
    for c in cands:
        good = True
        for i, (a, b) in enumerate(zip(r, c)):
            if abs(a - b) <= 1.5:
                continue
            if i == 2 and (abs(a - b * 1.4142) <= 1.5 or
                           abs(a - b * 0.7071) <= 1.5):
                continue
            good = False
            break
        if good:
            return True
    return False


SEEN_BODIES = {}


def polygon_mismatch(code, loc, verts):
    """vertices (offsets from the drawn location, up to one common positive
    scale) vs the qubits in the support of the stabilizer at loc."""
    sup = [tuple(float(c) for c in q[:2]) for q in code.get_stabilizer(loc)]
    offs = [(q[0] - loc[0], q[1] - loc[1]) for q in sup]
    if any(max(abs(o[0]), abs(o[1])) > 4 for o in offs):
        return None     # support reached through the periodic seam: skipped
    if len(verts) != len(sup):
        return (f'{len(verts)} corners for a support of {len(sup)} qubits '
                f'{sorted(sup)}')
    norms_v = sorted(math.hypot(*v) for v in verts)
    norms_o = sorted(math.hypot(*o) for o in offs)
    if min(norms_v) <= 1e-9:
        return 'a corner coincides with the centre'
    scale = norms_o[0] / norms_v[0]
    left = list(offs)
    for v in verts:
        hit = next((o for o in left if abs(o[0] - v[0] * scale) < 1e-6
                    and abs(o[1] - v[1] * scale) < 1e-6), None)
        if hit is None:
            return (f'corner {v} (scale {scale:g}) points at no qubit of the '
                    f'support offsets {sorted(left)}')
        left.remove(hit)
    return None


def check_code_data(out, client, gui_name, cls_name, size, dname, rotated,
                    coprime, repeat=False):
    desc = {'endpoint': '/code-data', 'code': gui_name, 'size': list(size),
            'deformation': dname, 'rotated_picture': rotated}
    mech = f'code-data/{cls_name}/' + ('rotated' if rotated else 'kitaev')
    payload = {'Lx': size[0], 'Ly': size[1], 'code_name': gui_name,
               'code_deformation_name': dname or 'None',
               'rotated_picture': rotated}
    if len(size) == 3:
        payload['Lz'] = size[2]
    else:
        payload['Lz'] = size[0] - (1 if coprime else 0)
    try:
        status, body = post(client, '/code-data', payload)
    except Exception as e:
        where = panqec_frame(e)
        if where is None:
            raise
        status, body = 500, None
        desc['exception'] = f'{type(e).__name__}: {e} at {where}'
    key = json.dumps(payload, sort_keys=True)
    if repeat:
        # the same request again, after other requests were served in
        # between: the answer must be the same
        out.count('repeated_requests_compared')
        first = SEEN_BODIES.get(key)
        if first is not None and (status, body) != first:
            what = 'status' if status != first[0] else next(
                (f'{k}[{i}]' for k in ('qubits', 'stabilizers')
                 for i, (a, b) in enumerate(zip(body.get(k, []),
                                                first[1].get(k, [])))
                 if a != b), 'body')
            out.violation(f'{mech}/repeated-request-differs',
                          f'the same /code-data request for {gui_name} '
                          f'{size} deformation={dname} rotated={rotated} was '
                          f'answered differently the second time ({what})',
                          desc)
        return
    SEEN_BODIES[key] = (status, body)
    out.count('code_data_requests')
    if rotated:
        out.count('rotated_picture_requests')
    if coprime:
        out.count('coprime_requests')
    if dname:
        out.count('deformed_requests')
    code = fam.build(cls_name, size, dname, {})
    out.case(desc, nontrivial=code.n_stabilizers > 0)
    if status != 200:
        out.violation(f'{mech}/status-{status}',
                      f'POST /code-data answered {status} for {gui_name} '
                      f'{size} deformation={dname} rotated={rotated} '
                      f"{desc.get('exception', '')}", desc)
        return
    n, m = code.n, code.n_stabilizers

    def bad(tag, what):
        out.violation(f'{mech}/{tag}', what, desc)
    for key in ('H', 'qubits', 'stabilizers', 'logical_x', 'logical_z'):
        if key not in body:
            bad('missing-key', f'response lacks {key!r}')
            return
    if len(body['qubits']) != n or len(body['stabilizers']) != m:
        bad('entry-count', f"{len(body['qubits'])} qubits / "
            f"{len(body['stabilizers'])} stabilizers for n={n}, m={m}")
        return
    for i, q in enumerate(body['qubits']):
        miss = [k for k in ('object', 'color', 'opacity', 'params',
                            'location') if k not in q]
        if miss:
            bad('qubit-entry-incomplete', f'qubit {i} lacks {miss}')
            break
        if not all(HEX.match(str(q['color'].get(p, '')))
                   for p in 'IXYZ'):
            bad('qubit-colour', f"qubit {i} colours {q['color']}")
            break
        if not display_ok(q['location'], code.qubit_coordinates[i], rotated):
            bad('qubit-order', f"qubit {i} is drawn at {q['location']} but "
                f'library qubit {i} sits at {code.qubit_coordinates[i]}')
            break
        if q['params'].get('axis') != code.qubit_axis(
                code.qubit_coordinates[i]):
            bad('qubit-axis', f'qubit {i} axis {q["params"].get("axis")}')
            break
    for i, s in enumerate(body['stabilizers']):
        miss = [k for k in ('object', 'color', 'opacity', 'params',
                            'location', 'type') if k not in s]
        if miss:
            bad('stabilizer-entry-incomplete', f'stabilizer {i} lacks {miss}')
            break
        if not all(HEX.match(str(s['color'].get(p, '')))
                   for p in ('activated', 'deactivated')):
            bad('stabilizer-colour', f"stabilizer {i} colours {s['color']}")
            break
        loc = code.stabilizer_coordinates[i]
        if s['type'] != code.stabilizer_type(loc):
            bad('stabilizer-order', f"stabilizer {i} has type {s['type']} "
                f'but library stabilizer {i} is a '
                f'{code.stabilizer_type(loc)}')
            break
        if not display_ok(s['location'], loc, rotated):
            bad('stabilizer-order', f"stabilizer {i} drawn at "
                f"{s['location']} but library stabilizer {i} sits at {loc}")
            break
        # a polygon's corners point at the qubits the stabilizer acts on
        verts = s['params'].get('vertices') if s['object'] == 'polygon' \
            else None
        if verts and len(size) == 2:
            out.count('polygons_compared_with_supports')
            why = polygon_mismatch(code, loc, verts)
            if why:
                bad('polygon-not-on-support',
                    f'stabilizer {i} at {loc}: {why}')
                break
    H = np.array(body['H']).reshape(m, -1) if m else np.zeros((0, 2 * n))
    if H.shape != (m, 2 * n) or \
            gf2.pack_rows(H) != gf2.pack_rows(code.stabilizer_matrix):
        bad('H-differs', 'H in the response is not the library\'s '
            'parity-check matrix of the (deformed) code')
    for key, ref in (('logical_x', code.logicals_x),
                     ('logical_z', code.logicals_z)):
        got = np.array(body[key])
        if got.shape != ref.shape or not np.array_equal(got, ref):
            bad(f'{key}-differs', f'{key} differs from the library\'s')


def check_names(out, client):
    codes, decoders, _ = gui_maps()
    for dim in (2, 3):
        status, body = post(client, '/code-names', {'dimension': dim})
        ref = [nm for nm, c in codes.items() if c.dimension == dim]
        out.case({'endpoint': '/code-names', 'dim': dim}, False)
        if status != 200 or body != ref:
            out.violation('code-names/wrong-list',
                          f'/code-names({dim}) -> {status} {body}',
                          {'dim': dim})
    if sorted(c.__name__ for c in codes.values()) != sorted(fam.ALL_CLASSES):
        out.violation('code-names/not-all-classes',
                      'GUI code table does not list the 16 exported classes',
                      {})
    for gui_name, cls in codes.items():
        status, body = post(client, '/decoder-names',
                            {'code_name': gui_name})
        out.count('decoder_name_requests')
        ref = [dn for dn, dc in decoders.items()
               if dc.allowed_codes is None or cls.__name__ in dc.allowed_codes]
        out.case({'endpoint': '/decoder-names', 'code': gui_name}, False)
        if status != 200 or sorted(body) != sorted(ref):
            out.violation(f'decoder-names/{cls.__name__}',
                          f'offered {body} but the decoders declaring '
                          f'support are {ref}', {'code': gui_name})
        status, body = post(client, '/deformation-names',
                            {'code_name': gui_name})
        out.case({'endpoint': '/deformation-names', 'code': gui_name}, False)
        if status != 200 or body != list(cls.deformation_names):
            out.violation(f'deformation-names/{cls.__name__}',
                          f'{body} vs {cls.deformation_names}',
                          {'code': gui_name})


class SeededNP:
    """numpy stand-in whose random.default_rng() is seeded (both sides)."""

    def __init__(self, seed):
        self.seed = seed

        class R:
            def __getattr__(s, name):
                return getattr(np.random, name)

            def default_rng(s, *a):
                return np.random.default_rng(seed)
        self.random = R()

    def __getattr__(self, name):
        return getattr(np, name)


def check_decode_and_errors(out, client, gui_name, cls_name, size, rng, tier,
                            only=None):
    import panqec.error_models._pauli_error_model as pem
    from panqec.error_models import PauliErrorModel
    codes, decoders, noise_directions = gui_maps()
    cls = codes[gui_name]
    names = list(cls.deformation_names)
    code_def = 'None' if not names or rng.random() < 0.5 else names[0]
    noise_def = 'None' if not names or rng.random() < 0.5 else names[0]
    noise = str(rng.choice(list(noise_directions)))
    if code_def != noise_def:
        noise = str(rng.choice(['Pure X', 'Pure Z', 'Pure X', 'Pure Y',
                                'Depolarizing']))
    p = float(rng.choice([0.05, 0.1, 0.3]))
    base = {'Lx': size[0], 'Ly': size[1],
            'Lz': size[2] if len(size) == 3 else size[1],
            'code_name': gui_name, 'code_deformation_name': code_def,
            'noise_deformation_name': noise_def, 'error_model': noise,
            'p': p}
    code = fam.build(cls_name, size, None if code_def == 'None' else code_def,
                     {})
    n = code.n
    em = PauliErrorModel(*noise_directions[noise],
                         None if noise_def == 'None' else noise_def)
    # ---- /new-errors ---------------------------------------------------------
    seed = int(rng.integers(0, 2 ** 31))
    real_np = pem.np
    pem.np = SeededNP(seed)
    desc = dict(base, endpoint='/new-errors')
    try:
        try:
            status, body = post(client, '/new-errors', base)
        except Exception as e:
            where = panqec_frame(e)
            if where is None:
                raise
            status, body = 500, None
            desc['exception'] = f'{type(e).__name__}: {e} at {where}'
        ref = em.generate(code, p)
    finally:
        pem.np = real_np
    out.count('new_errors_requests')
    out.case(desc, True)
    if status != 200:
        out.violation(f'new-errors/{cls_name}/status-{status}',
                      f"/new-errors answered {status} "
                      f"{desc.get('exception', '')}", desc)
    elif len(body) != 2 * n or any(b not in (0, 1) for b in body):
        out.violation(f'new-errors/{cls_name}/not-binary-2n',
                      f'{len(body)} entries for n={n}', desc)
    elif body != [int(x) for x in ref]:
        out.violation(f'new-errors/{cls_name}/differs-from-library',
                      'errors differ from PauliErrorModel.generate under the '
                      'same generator state', desc)
    # ---- /decode ---------------------------------------------------------------
    status, offered = post(client, '/decoder-names', {'code_name': gui_name})
    for dname in offered or []:
        if only is not None and dname not in only:
            continue
        if dname == 'MBP' and n > 13:
            continue
        if dname == 'Union-Find' and n > 60:
            continue
        if dname == 'RotatedSweepMatch' and not code.is_css:
            continue        # C05 known finding (odd RotatedToric3D)
        if dname in ('Matching', 'SweepMatch', 'RotatedSweepMatch',
                     'Union-Find', 'XCube Matching') and not code.is_css:
            continue        # CSS-only decoders on a deformed code: not a
                            # combination the library supports
        e = (rng.random(2 * n) < 0.08).astype('uint8')
        s = np.asarray(code.measure_syndrome(e)).astype(int)
        req = dict(base, decoder=dname, syndrome=s.tolist(), max_bp_iter=3
                   if dname == 'MBP' else 10, alpha=0.4, beta=0,
                   channel_update=False)
        desc = {k: v for k, v in req.items() if k != 'syndrome'}
        desc['endpoint'] = '/decode'
        try:
            status, body = post(client, '/decode', req)
        except Exception as ex:
            where = panqec_frame(ex)
            if where is None:
                raise
            status, body = 500, None
            desc['exception'] = f'{type(ex).__name__}: {ex} at {where}'
        out.count('decode_requests')
        out.case(desc, True)
        if status != 200:
            out.violation(f'decode/{dname}/{cls_name}/status-{status}',
                          f"/decode answered {status} "
                          f"{desc.get('exception', '')}", desc)
            continue
        kw = {}
        if dname in ('BP-OSD', 'MBP'):
            kw['max_bp_iter'] = req['max_bp_iter']
        if dname == 'BP-OSD':
            kw['osd_order'] = 0
        if dname == 'MBP':
            kw.update(alpha=0.4, beta=0)
        with contextlib.redirect_stdout(io.StringIO()):
            code2 = fam.build(cls_name, size,
                              None if code_def == 'None' else code_def, {})
            ref = np.asarray(decoders[dname](code2, em, p, **kw).decode(
                s.copy()))
        got = body['x'] + body['z']
        if len(got) != 2 * n or got != [int(x) for x in ref]:
            out.violation(f'decode/{dname}/{cls_name}/differs-from-library',
                          'correction differs from the library decoder built '
                          'with the same arguments', desc)


def plan(tier, seed):
    codes_by_dim = {2: fam.CLASSES_2D, 3: fam.CLASSES_3D}
    tasks = [{'kind': 'names', 'cost': 200},
             {'kind': 'extended', 'seed': seed, 'cost': 2000},
             {'kind': 'bigdecode', 'seed': seed, 'tier': tier,
              'cost': 6e5}]
    for cls_name in fam.ALL_CLASSES:
        for L in range(1, 13):
            for coprime in (False, True):
                size = size_of(cls_name, L, coprime)
                if not fam.SUPPORTED[cls_name](*size):
                    continue
                if cls_name == 'Color666ToricCode' and coprime:
                    continue       # C01 known finding (rectangular)
                tasks.append({'kind': 'data', 'cls': cls_name, 'L': L,
                              'coprime': coprime, 'size': list(size),
                              'budget': BUDGET[tier], 'seed': seed,
                              'tier': tier,
                              'cost': fam.n_estimate(cls_name, size) ** 1.5})
    return tasks


def run_data(task, out):
    codes, _, _ = gui_maps()
    cls_name, size = task['cls'], tuple(task['size'])
    gui_name = next(k for k, v in codes.items() if v.__name__ == cls_name)
    code = fam.build(cls_name, size)
    entries = code.n_stabilizers * 2 * code.n
    if entries > task['budget']:
        out.count('menu_sizes_above_budget')
        out.extra.setdefault('not_claimed', []).append(
            f'{cls_name}{size}')
        return
    client = make_client()
    rng = np.random.default_rng([task['seed'], 2020, len(cls_name),
                                 sum(size)])
    for dname in [None] + list(codes[gui_name].deformation_names):
        for rotated in (False, True):
            check_code_data(out, client, gui_name, cls_name, size, dname,
                            rotated, task['coprime'])
    for dname in [None] + list(codes[gui_name].deformation_names):
        for rotated in (False, True):
            check_code_data(out, client, gui_name, cls_name, size, dname,
                            rotated, task['coprime'], repeat=True)
    SEEN_BODIES.clear()
    if code.n <= (120 if task['tier'] == 'quick' else 400):
        reps = 3 if task['tier'] == 'quick' else 8
        for _ in range(reps):
            check_decode_and_errors(out, client, gui_name, cls_name, size,
                                    rng, task['tier'])


def run_extended(task, out):
    """A GUI instance extended through its documented add_code /
    add_decoder calls: the additions must be offered and served like the
    built-in ones, and the built-in menus must include them where they
    declare support."""
    import panqec.gui._gui as g
    from panqec.gui import GUI
    from panqec.codes import Toric2DCode, Toric3DCode
    from panqec.decoders import MatchingDecoder, BeliefPropagationOSDDecoder
    from panqec.error_models import PauliErrorModel

    # user classes reuse the drawing tables of their parents (the id is
    # what gui-config.json is looked up by)
    class MyToric2DCode(Toric2DCode):
        id = property(lambda self: 'Toric2DCode')

    class MyToric3DCode(Toric3DCode):
        id = property(lambda self: 'Toric3DCode')

    class MyMatching(MatchingDecoder):
        allowed_codes = ['MyToric2DCode', 'Planar2DCode']

    class MyBPOSD(BeliefPropagationOSDDecoder):
        allowed_codes = None

    before = (dict(g.codes), dict(g.decoders))
    gui = GUI()
    try:
        gui.add_code(MyToric2DCode, 'My Toric 2D')
        gui.add_code(MyToric3DCode, 'My Toric 3D')
        gui.add_decoder(MyMatching, 'My Matching')
        gui.add_decoder(MyBPOSD, 'My BP-OSD')
        client = gui.app.test_client()
        reg_codes, reg_decs = dict(gui.codes), dict(gui.decoders)
        for dim in (2, 3):
            status, body = post(client, '/code-names', {'dimension': dim})
            ref = [nm for nm, c in reg_codes.items() if c.dimension == dim]
            out.count('extended_gui_requests')
            out.case({'endpoint': '/code-names', 'dim': dim,
                      'extended': True}, True)
            if status != 200 or body != ref:
                out.violation('extended-gui/code-names',
                              f'/code-names({dim}) -> {status} {body}, '
                              f'registered: {ref}', {'dim': dim})
        for gui_name in ('Planar 2D', 'Toric 2D', 'My Toric 2D',
                         'My Toric 3D', 'Toric 3D'):
            cls = reg_codes[gui_name]
            desc = {'endpoint': '/decoder-names', 'code': gui_name,
                    'extended': True}
            status, body = post(client, '/decoder-names',
                                {'code_name': gui_name})
            out.count('extended_gui_requests')
            out.case(desc, True)
            ref = [dn for dn, dc in reg_decs.items()
                   if dc.allowed_codes is None
                   or cls.__name__ in dc.allowed_codes]
            if status != 200 or sorted(body) != sorted(ref):
                out.violation('extended-gui/decoder-names',
                              f'{gui_name}: offered {status} {body} but the '
                              f'registered decoders declaring support are '
                              f'{ref}', desc)
                continue
            status, dn = post(client, '/deformation-names',
                              {'code_name': gui_name})
            out.count('extended_gui_requests')
            if status != 200 or dn != list(cls.deformation_names):
                out.violation('extended-gui/deformation-names',
                              f'{gui_name}: {status} {dn}', desc)
            size = (3, 4) if cls.dimension == 2 else (2, 2, 3)
            payload = {'Lx': size[0], 'Ly': size[1], 'Lz': size[-1],
                       'code_name': gui_name,
                       'code_deformation_name': 'None',
                       'rotated_picture': False}
            status, cd = post(client, '/code-data', payload)
            out.count('extended_gui_requests')
            code = cls(*size)
            if status != 200:
                out.violation('extended-gui/code-data-status',
                              f'{gui_name}: /code-data answered {status}',
                              desc)
                continue
            H = np.array(cd['H']).reshape(code.n_stabilizers, -1)
            if gf2.pack_rows(H) != gf2.pack_rows(code.stabilizer_matrix):
                out.violation('extended-gui/code-data-H',
                              f'{gui_name}: H differs from the library', desc)
            rng = np.random.default_rng([task['seed'], 2021, len(gui_name)])
            em = PauliErrorModel(1 / 3, 1 / 3, 1 / 3)
            for dname in body:
                e = em.generate(code, 0.1, rng=rng)
                syn = code.measure_syndrome(e)
                pl = dict(payload, syndrome=[int(x) for x in syn], p=0.1,
                          noise_deformation_name='None', max_bp_iter=10,
                          alpha=0.4, beta=0, decoder=dname,
                          error_model='Depolarizing')
                status, r = post(client, '/decode', pl)
                out.count('extended_gui_requests')
                out.count('extended_gui_decodes')
                kw = {}
                if dname in ('BP-OSD', 'MBP'):
                    kw['max_bp_iter'] = 10
                if dname == 'BP-OSD':
                    kw['osd_order'] = 0
                if dname == 'MBP':
                    kw.update(alpha=0.4, beta=0)
                if status != 200:
                    out.violation('extended-gui/decode-status',
                                  f'{gui_name} / {dname}: /decode answered '
                                  f'{status}', dict(desc, decoder=dname))
                    continue
                with contextlib.redirect_stdout(io.StringIO()):
                    ref_c = np.asarray(reg_decs[dname](
                        cls(*size), PauliErrorModel(1 / 3, 1 / 3, 1 / 3),
                        0.1, **kw).decode(np.array(syn)))
                got = np.array(list(r['x']) + list(r['z']))
                if dname != 'MBP' and not np.array_equal(got, ref_c):
                    out.violation('extended-gui/decode-differs',
                                  f'{gui_name} / {dname}: /decode differs '
                                  'from the library decoder',
                                  dict(desc, decoder=dname))
    finally:
        for reg, old in ((g.codes, before[0]), (g.decoders, before[1])):
            for k in list(reg):
                if k not in old:
                    reg.pop(k)
            reg.update(old)


def run_big_decode(task, out):
    """/decode for the largest lattices of the menu: the request carries a
    syndrome of a few thousand entries."""
    codes, _, _ = gui_maps()
    client = make_client()
    rng = np.random.default_rng([task['seed'], 2022])
    for cls_name, size in (('Toric3DCode', (8, 8, 8)),
                           ('Color666ToricCode', (10, 10)),
                           ('Toric2DCode', (12, 12)),
                           ('XCubeCode', (7, 7, 7))):
        gui_name = next(k for k, v in codes.items() if v.__name__ == cls_name)
        check_decode_and_errors(out, client, gui_name, cls_name, size, rng,
                                task['tier'], only=['BP-OSD'])
        out.count('decode_requests_with_syndromes_of_thousands_of_entries')


def run_task(task, out):
    if task['kind'] == 'bigdecode':
        run_big_decode(task, out)
        return
    if task['kind'] == 'extended':
        run_extended(task, out)
    elif task['kind'] == 'names':
        check_names(out, make_client())
    else:
        run_data(task, out)


def finalize(run, tier, seed):
    run.extra['budget'] = BUDGET[tier]
    nc = run.extra.get('not_claimed', [])
    run.extra['not_claimed'] = sorted(nc)[:80]
    run.extra['n_not_claimed'] = len(nc)


def classify(v):
    return None


def replay(v, out):
    w = v['witness']
    codes, _, _ = gui_maps()
    client = make_client()
    if w.get('endpoint') == '/code-data':
        cls_name = codes[w['code']].__name__
        check_code_data(out, client, w['code'], cls_name, tuple(w['size']),
                        w['deformation'], w['rotated_picture'], False)
    else:
        print('replay: re-run ./check C20')
