"""C14 — parallel runs execute exactly the requested trials per input.

Monitor: a recording stand-in for `multiprocessing` is bound in panqec.cli's
namespace; run_parallel (the real click command's callback) is called for
every job index of every configuration and the (input file, result file,
n_runs) of every Process it would start is recorded -- no process is started.
Offline oracle over the recorded launches of all nodes: per input file the
n_runs add up to the requested trials, every task has n_runs >= 1, result
files are pairwise distinct, nothing raises.  Thorough adds a real end-to-end
run whose result files are read back.
"""
from __future__ import annotations

import contextlib
import glob
import io
import json
import os
import shutil
import tempfile

from pv.common import panqec_frame

PROPERTY = 'C14'
LEVEL = 'exploration'
TECHNIQUE = ('runtime monitoring: recording proxy at the multiprocessing '
             'boundary of the real run_parallel + offline conservation check '
             '(sum of launched trials per input == requested) over an '
             'exhaustively enumerated configuration box')
MANIFEST_TEXT = ('All (inputs, nodes, cores, trials) in the stated box with '
                 'N*C >= inputs and trials >= tasks per input, every job '
                 'index, are driven through the real run_parallel; the '
                 'launched (input, result file, n_runs) tuples are checked '
                 'for conservation, positivity and distinct outputs. '
                 'Exhaustive inside the box; thorough adds a real 2x3 run.')
MANIFEST_NOTE = ('Assumes the directory listing (glob) is the same on every '
                 'node. The box is reported in coverage.box.')
RULE = ('case = one configuration (inputs, N, C, trials) with all its job '
        'indices; distinct by the 4-tuple; non-trivial = more than one task '
        'in total')
ASSUMPTIONS = ['identical glob order on all nodes']
REQUIRED_COUNTERS = ['configurations_checked', 'processes_recorded',
                     'run_parallel_calls', 'cluster_sized_allocations',
                     'input_name_scheme_bias-frac',
                     'input_name_scheme_dotted',
                     'input_name_scheme_mixed-leading',
                     'configurations_with_delete_existing',
                     'result_files_looked_for_after_all_nodes',
                     'reruns_on_top_of_existing_result_files',
                     'campaigns_after_inputs_were_added']
EXHAUSTIVE = True
EXHAUSTIVE_SCOPE = 'coverage.box'

BOX = {
    'quick': dict(inputs=range(1, 6), nodes=range(1, 4), cores=range(1, 7),
                  tmax=24, extra=[97, 100, 1000, 1001]),
    'thorough': dict(inputs=range(1, 8), nodes=range(1, 6),
                     cores=range(1, 10), tmax=60,
                     extra=[97, 100, 128, 999, 1000, 1001, 10007]),
}


class FakeProcess:
    def __init__(self, rec, target=None, args=(), kwargs=None):
        self.args = args
        rec.append({'target': getattr(target, '__name__', str(target)),
                    'args': args, 'kwargs': kwargs or {}})

    def start(self):
        # the task writes its result file (what run_file does at its first
        # save); whether it is still there is judged after ALL nodes ran
        try:
            n_runs = int(self.args[2])
            rec = [{'inputs': {
                'code': {'name': 'Toric2DCode', 'parameters': {
                    'L_x': 3, 'L_y': 3, 'L_z': None}, 'n': 18, 'k': 2,
                    'd': 3},
                'error_model': {'name': 'PauliErrorModel', 'parameters': {
                    'r_x': 1 / 3, 'r_y': 1 / 3, 'r_z': 1 / 3,
                    'deformation_name': None, 'deformation_kwargs': {}}},
                'decoder': {'name': 'MatchingDecoder', 'parameters': {
                    'error_type': None, 'weights': None}},
                'error_rate': 0.1,
                'method': {'name': 'direct', 'parameters': {}}},
                'results': {'n_runs': n_runs, 'wall_time': 0.1,
                            'effective_error': [[0, 0, 0, 0]] * n_runs,
                            'success': [True] * n_runs,
                            'codespace': [True] * n_runs}}]
            raw = json.dumps(rec).encode()
            if str(self.args[1]).endswith('.gz'):
                import gzip
                with gzip.open(self.args[1], 'wb', compresslevel=1) as f:
                    f.write(raw)
            else:
                with open(self.args[1], 'wb') as f:
                    f.write(raw)
        except (OSError, IndexError, TypeError, ValueError):
            pass

    def join(self):
        pass


class FakeMP:
    def __init__(self):
        self.launched = []

    def cpu_count(self):
        return 10 ** 6

    def Process(self, target=None, args=(), kwargs=None):
        return FakeProcess(self.launched, target, args, kwargs)


NAME_SCHEMES = ['plain', 'bias-int', 'bias-frac', 'dotted', 'mixed-leading']


def input_name(scheme, i):
    """File names as users and `panqec generate-input` produce them."""
    if scheme == 'plain':
        return f'in_{i:02d}.json'
    if scheme == 'bias-int':
        return f'experiment_bias_{[1, 3, 10, 30, 100, 300, 1000, "inf"][i]}.json'
    if scheme == 'bias-frac':       # non-integer bias ratios
        return f'experiment_bias_{[0.25, 0.5, 0.75, 1.5, 2.5, 3.5, 30.5, 0.125][i]}.json'
    if scheme == 'mixed-leading':   # some names start with a digit
        return ['3d_toric.json', 'toric.json', '2d.json', 'xzzx_3.json',
                '10_rates.json', 'b.json', '7.json', 'a1.json'][i]
    return f'toric.L{4 + 2 * i}.json'


def input_content(i):
    """A legal specification in each of the three layouts run_file reads:
    one ranges dict, a list of ranges, explicit runs."""
    rng_ = {'label': f'in{i}',
            'code': {'name': 'Toric2DCode',
                     'parameters': [{'L_x': 3, 'L_y': 3}]},
            'error_model': {'name': 'PauliErrorModel', 'parameters': [
                {'r_x': 1 / 3, 'r_y': 1 / 3, 'r_z': 1 / 3}]},
            'decoder': {'name': 'MatchingDecoder', 'parameters': {}},
            'error_rate': [0.05 + 0.01 * i, 0.1]}
    if i % 3 == 0:
        return {'comments': '', 'ranges': rng_}
    if i % 3 == 1:
        second = dict(rng_, error_rate=[0.2])
        return {'ranges': [rng_, second]}
    return {'runs': [{'label': f'in{i}', 'code': {
        'name': 'Toric2DCode', 'parameters': {'L_x': 3, 'L_y': 3}},
        'error_model': {'name': 'PauliErrorModel', 'parameters': {
            'r_x': 1 / 3, 'r_y': 1 / 3, 'r_z': 1 / 3}},
        'decoder': {'name': 'MatchingDecoder', 'parameters': {}},
        'error_rate': 0.1}]}


def tasks_per_input_max(n_tasks, n_inputs):
    return n_tasks // n_inputs + n_tasks % n_inputs


def check_config(out, cli, fake, data_dir, n_inputs, N, C, trials,
                 delete_existing=False):
    desc = {'inputs': n_inputs, 'nodes': N, 'cores': C, 'trials': trials,
            'delete_existing': delete_existing}
    launches = []
    if delete_existing:
        out.count('configurations_with_delete_existing')
    for job in range(1, N + 1):
        fake.launched = []
        try:
            with contextlib.redirect_stdout(io.StringIO()):
                cli.run_parallel.callback(
                    data_dir=data_dir, trials=trials, n_nodes=N,
                    job_idx=job, n_cores=C,
                    delete_existing=delete_existing)
        except Exception as e:
            where = panqec_frame(e)
            if where is None:
                raise
            out.violation(f'run_parallel/raises-{type(e).__name__}',
                          f'{type(e).__name__}: {e} at {where} for {desc} '
                          f'job {job}', dict(desc, job=job))
            return
        out.count('run_parallel_calls')
        if len(fake.launched) != C:
            out.violation('run_parallel/process-count',
                          f'job {job} launched {len(fake.launched)} '
                          f'processes on {C} cores', dict(desc, job=job))
        launches += fake.launched
    out.count('processes_recorded', len(launches))
    per_input = {}
    results = []
    for L in launches:
        inp, res, n_runs = L['args'][:3]
        per_input[inp] = per_input.get(inp, 0) + n_runs
        results.append(res)
        if n_runs < 1:
            out.violation('run_parallel/task-without-trials',
                          f'a task was given n_runs={n_runs} ({desc})', desc)
            break
    if len(set(results)) != len(results):
        out.violation('run_parallel/result-file-shared',
                      f'two tasks write the same result file ({desc})', desc)
    else:
        gone = [r for r in results if not os.path.exists(r)]
        out.count('result_files_looked_for_after_all_nodes', len(results))
        if gone:
            out.violation('run_parallel/result-file-gone-after-all-nodes',
                          f'{len(gone)} of {len(results)} tasks have no '
                          f'result file left once every node has run '
                          f'({desc})', desc)
    expected_inputs = sorted(glob.glob(os.path.join(data_dir, 'inputs',
                                                    '*.json')))
    for inp in expected_inputs:
        got = per_input.get(os.path.abspath(inp), 0)
        if got != trials:
            short = 'too-few' if got < trials else 'too-many'
            out.violation(
                f'run_parallel/trials-not-conserved/{short}',
                f'{n_inputs} input(s), {N} node(s) x {C} core(s), '
                f'{trials} trials requested: input '
                f'{os.path.basename(inp)} runs {got} in total',
                dict(desc, per_input={os.path.basename(k): v
                                      for k, v in per_input.items()}))
            break
    if set(per_input) - {os.path.abspath(i) for i in expected_inputs}:
        out.violation('run_parallel/unknown-input',
                      'a task was launched on a file that is not an input',
                      desc)
    out.count('configurations_checked')
    out.case(desc, nontrivial=N * C > 1)
    if len(out.samples) < 3 and N * C > 2 and n_inputs > 1:
        out.sample(dict(desc, launches=[(os.path.basename(l['args'][0]),
                                         os.path.basename(l['args'][1]),
                                         l['args'][2]) for l in launches]))


def run_block(task, out):
    import panqec.cli as cli
    fake = FakeMP()
    real_mp = cli.multiprocessing
    cli.multiprocessing = fake
    base = os.environ.get('PV_WORK') or tempfile.gettempdir()
    d = tempfile.mkdtemp(prefix='c14-', dir=base)
    try:
        n_inputs = task['inputs']
        os.makedirs(os.path.join(d, 'inputs'))
        scheme = task.get('names', 'plain')
        for i in range(n_inputs):
            with open(os.path.join(d, 'inputs', input_name(scheme, i)),
                      'w') as f:
                json.dump(input_content(i), f)
        out.count('input_name_scheme_' + scheme)
        for N in task['nodes']:
            for C in task['cores']:
                n_tasks = N * C
                if n_tasks < n_inputs:
                    continue
                tmin = tasks_per_input_max(n_tasks, n_inputs)
                ts = list(range(tmin, max(tmin, task['tmax']) + 1)) + \
                    [t for t in task['extra'] if t >= tmin]
                if task.get('wide'):
                    out.count('cluster_sized_allocations')
                for ti, trials in enumerate(ts):
                    check_config(out, cli, fake, d, n_inputs, N, C, trials,
                                 delete_existing=(ti + N + C) % 3 == 0)
                # the allocation is run again for more trials on top of the
                # result files the run above left behind
                if ts:
                    out.count('reruns_on_top_of_existing_result_files')
                    check_config(out, cli, fake, d, n_inputs, N, C,
                                 ts[-1] + tmin + 3, delete_existing=False)
        # a second campaign on the same data directory after more input
        # files were added (another generate-input call)
        N, C = task['nodes'][-1], max(task['cores'])
        if N * C >= n_inputs + 2:
            for extra in ('zz_added_later.json', '0_added_later.json'):
                with open(os.path.join(d, 'inputs', extra), 'w') as f:
                    json.dump(input_content(7), f)
            out.count('campaigns_after_inputs_were_added')
            check_config(out, cli, fake, d, n_inputs + 2, N, C,
                         tasks_per_input_max(N * C, n_inputs + 2) + 5)
    finally:
        cli.multiprocessing = real_mp
        shutil.rmtree(d, ignore_errors=True)


def run_real(task, out):
    """Real processes: 2 nodes x 3 cores, 2 inputs, tiny spec."""
    import subprocess
    from pv.common import child_env, PYTHON
    base = os.environ.get('PV_WORK') or tempfile.gettempdir()
    d = tempfile.mkdtemp(prefix='c14r-', dir=base)
    try:
        os.makedirs(os.path.join(d, 'inputs'))
        for i, rate in enumerate([0.05, 0.1]):
            spec = {'ranges': {
                'label': f'in{i}',
                'code': {'name': 'Toric2DCode',
                         'parameters': [{'L_x': 3, 'L_y': 3}]},
                'error_model': {'name': 'PauliErrorModel', 'parameters': {
                    'r_x': 1 / 3, 'r_y': 1 / 3, 'r_z': 1 / 3}},
                'decoder': {'name': 'MatchingDecoder', 'parameters': {}},
                'error_rate': [rate]}}
            with open(os.path.join(d, 'inputs', f'in{i}.json'), 'w') as f:
                json.dump(spec, f)
        trials = task['trials']
        for job in (1, 2):
            p = subprocess.run(
                [PYTHON, '-m', 'panqec', 'run-parallel', '-d', d, '-t',
                 str(trials), '-n', '2', '-j', str(job), '-c', '3'],
                env=child_env(), capture_output=True, text=True, timeout=600)
            if p.returncode != 0:
                out.violation('run_parallel/real-run-failed',
                              f'exit {p.returncode}: {p.stderr[-400:]}',
                              {'job': job, 'trials': trials})
                return
        import gzip
        totals = {}
        for fpath in glob.glob(os.path.join(d, 'results', '*.json.gz')):
            with gzip.open(fpath, 'rb') as f:
                data = json.loads(f.read().decode())
            for rec in data:
                k = rec['inputs']['error_rate']
                totals[k] = totals.get(k, 0) + rec['results']['n_runs']
                if len(rec['results']['success']) != \
                        rec['results']['n_runs']:
                    out.violation('run_parallel/real-run-list-length',
                                  'result list length != n_runs', {})
        desc = {'k': 'real-run', 'trials': trials, 'totals': totals}
        out.count('real_runs')
        out.case(desc, True, sample=desc)
        for k in (0.05, 0.1):
            if totals.get(k, 0) != trials:
                out.violation('run_parallel/real-run-trials-not-conserved',
                              f'rate {k}: {totals.get(k, 0)} trials in the '
                              f'result files, {trials} requested', desc)
    finally:
        shutil.rmtree(d, ignore_errors=True)


def plan(tier, seed):
    box = BOX[tier]
    tasks = []
    for n_inputs in box['inputs']:
        for N in box['nodes']:
            tasks.append({'kind': 'block', 'inputs': n_inputs, 'nodes': [N],
                          'cores': list(box['cores']), 'tmax': box['tmax'],
                          'extra': box['extra'],
                          'names': NAME_SCHEMES[(n_inputs + N) % 5],
                          'cost': len(box['cores']) * box['tmax'] * N})
    # cluster-sized allocations (beyond the exhaustive box; enumerated list)
    wide_nodes = [4, 5, 7, 8, 12, 16] if tier == 'quick' else \
        list(range(4, 21))
    wide_cores = [8, 12, 14, 16, 24, 32] if tier == 'quick' else \
        [8, 10, 12, 14, 16, 20, 24, 28, 32, 47, 48, 64]
    for n_inputs in (1, 2, 3, 4, 6, 8):
        for N in wide_nodes:
            tasks.append({'kind': 'block', 'inputs': n_inputs, 'nodes': [N],
                          'cores': wide_cores, 'tmax': 0,
                          'extra': [1000, 1003], 'wide': True,
                          'names': NAME_SCHEMES[(n_inputs + N) % 5],
                          'cost': len(wide_cores) * 3 * N * 8})
    if tier == 'thorough':
        for trials in (7, 10, 13):
            tasks.append({'kind': 'real', 'trials': trials, 'cost': 4000})
    return tasks


def run_task(task, out):
    if task['kind'] == 'block':
        run_block(task, out)
    else:
        run_real(task, out)


def finalize(run, tier, seed):
    b = BOX[tier]
    run.extra['box'] = {'inputs': [min(b['inputs']), max(b['inputs'])],
                        'nodes': [min(b['nodes']), max(b['nodes'])],
                        'cores': [min(b['cores']), max(b['cores'])],
                        'trials': f"max tasks per input .. {b['tmax']} plus "
                                  f"{b['extra']}"}


def classify(v):
    return None


def replay(v, out):
    w = v['witness']
    if 'inputs' in w:
        run_block({'inputs': w['inputs'], 'nodes': [w['nodes']],
                   'cores': [w['cores']], 'tmax': w['trials'],
                   'extra': [w['trials']]}, out)
    else:
        run_real({'trials': w.get('trials', 7)}, out)
