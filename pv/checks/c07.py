"""C07 — Pauli noise model is the stated i.i.d. channel, sampled faithfully.

Monitors:
  * probability_distribution(code, p) vs a reference channel written from
    the statement: (1-p, p r_x, p r_y, p r_z) permuted per qubit by the
    *stated* deformation pattern (XZZX: X<->Z on qubits along the axis; XY:
    Y<->Z everywhere; other names: the class's get_deformation, whose
    consistency is C08's business);
  * generate(code, p, rng) with a SCRIPTED uniform-variate source: the Pauli
    chosen for every variate value is compared with the half-open CDF
    interval containing it; variates consumed = n, in qubit order;
  * get_weights, and -- through recording proxies around pymatching.Matching
    and ldpc.BpOsdDecoder -- the priors that actually reach the decoders,
    including BP-OSD's conditional update.
One error-model object is reused across many codes, as a threshold sweep does.
"""
from __future__ import annotations

import math

import numpy as np

from pv import gf2
from pv import families as fam
from pv.common import panqec_frame

PROPERTY = 'C07'
LEVEL = 'exploration'
TECHNIQUE = ('runtime monitoring: reference-channel oracle on '
             'probability_distribution; scripted-RNG trace of generate() '
             '(variate -> Pauli map decided exactly); recording proxies on '
             'pymatching.Matching / ldpc.BpOsdDecoder for the priors')
MANIFEST_TEXT = ('For noise directions on a simplex grid (vertices, faces, '
                 'interior), rates incl. 0 and 1, all 16 classes and every '
                 'deformation name/axis, the probability tables are compared '
                 'with an independently written channel; sampling is decided '
                 'per variate value on a 257-point grid plus every CDF '
                 'boundary +-1 ulp using a scripted generator; decoder priors '
                 'are intercepted at the third-party boundary.')
MANIFEST_NOTE = ('Trusted: own channel formula, math.log. Within 4 ulp of a '
                 'CDF boundary either neighbouring Pauli is accepted '
                 '(rounding of the running sum is not a defect). Matching '
                 'weights compared to 1e-9 relative; marginals below 1e-12 '
                 'only required to give a weight > 25.')
RULE = ('case = one (direction, deformation, class, size, rate) table '
        'comparison, or one scripted generate() call, or one intercepted '
        'prior vector; distinct by descriptor; non-trivial = 0<p and the '
        'direction is not uniform-or-p-zero trivial (p>0)')
ASSUMPTIONS = ['supported size family = pv/families.py']
REQUIRED_COUNTERS = ['tables_compared', 'scripted_generate_calls',
                     'variates_consumed', 'boundary_variates',
                     'matching_weight_vectors', 'bposd_prior_vectors',
                     'bposd_conditional_updates', 'deformed_tables',
                     'tables_reread_after_decoding',
                     'models_reused_across_codes',
                     'models_sharing_label_and_code_objects',
                     'tables_from_integer_typed_parameters',
                     'tables_on_user_defined_codes',
                     'bposd_priors_in_force_after_rate_change',
                     'one_sector_matching_setups',
                     'generate_calls_with_scalar_only_rng']

OPTIONS = 'IXYZ'


def simplex_grid():
    pts = []
    for a in range(0, 6):
        for b in range(0, 6 - a):
            c = 5 - a - b
            pts.append((a / 5, b / 5, c / 5))
    return pts


def ref_permutation(code, cls, name, kwargs):
    """Per qubit: dict sigma -> D(sigma) from the STATEMENT where it states
    one, else from the class."""
    if name is None:
        ident = {'X': 'X', 'Y': 'Y', 'Z': 'Z'}
        return [ident] * code.n
    out = []
    if name == 'XZZX':
        axis = kwargs.get('deformation_axis', fam.default_axis(cls))
        for loc in code.qubit_coordinates:
            if code.qubit_axis(loc) == axis:
                out.append({'X': 'Z', 'Y': 'Y', 'Z': 'X'})
            else:
                out.append({'X': 'X', 'Y': 'Y', 'Z': 'Z'})
        return out
    if name == 'XY':
        return [{'X': 'X', 'Y': 'Z', 'Z': 'Y'}] * code.n
    for loc in code.qubit_coordinates:
        d = code.get_deformation(loc, name, **kwargs)
        out.append({k: d[k] for k in 'XYZ'})
    return out


def ref_channel(code, cls, direction, p, name, kwargs):
    """(n,4) array of (pI,pX,pY,pZ): P_def(sigma) = P(D sigma)."""
    rx, ry, rz = direction
    base = {'X': p * rx, 'Y': p * ry, 'Z': p * rz}
    perm = ref_permutation(code, cls, name, kwargs)
    tab = np.zeros((code.n, 4))
    for i, d in enumerate(perm):
        tab[i, 0] = 1 - p
        tab[i, 1] = base[d['X']]
        tab[i, 2] = base[d['Y']]
        tab[i, 3] = base[d['Z']]
    return tab


class ScriptedRNG:
    """Replays a prescribed sequence of uniform variates."""

    def __init__(self, seq):
        self.seq = list(seq)
        self.used = 0

    def random(self, size=None, *a, **k):
        if a or k:
            raise AssertionError('scripted rng: random() with unexpected '
                                 f'arguments {a} {k}')
        if size is None:
            v = self.seq[self.used]
            self.used += 1
            return v
        # a vectorised draw takes the next variates in order
        m = int(np.prod(size))
        if self.used + m > len(self.seq):
            raise AssertionError(f'scripted rng: {self.used + m} variates '
                                 f'asked for, {len(self.seq)} scripted')
        v = np.array(self.seq[self.used:self.used + m], dtype=float)
        self.used += m
        return v.reshape(size)

    def __getattr__(self, name):
        raise AssertionError(f'scripted rng: unexpected use of rng.{name}')


class ScalarOnlyRNG(ScriptedRNG):
    """An rng that only serves one variate per call (random.Random, a
    user's scripted source): asking it for a vector is a TypeError."""

    def random(self):
        v = self.seq[self.used]
        self.used += 1
        return v


def ulp(x):
    return math.ulp(x) if x > 0 else 5e-324


def allowed_letters(row, u):
    """Letters whose half-open CDF interval (computed as the exact running
    float sum, then widened by 4 ulp) contains u."""
    ok = set()
    cum = 0.0
    lo = 0.0
    for j in range(4):
        cum = cum + float(row[j])
        hi = cum if j < 3 else 1.0
        tol = 4 * max(ulp(lo), ulp(hi))
        if lo - tol <= u < hi + tol and (float(row[j]) > 0 or
                                         abs(u - hi) <= tol
                                         or abs(u - lo) <= tol):
            ok.add(OPTIONS[j])
        lo = cum
    return ok


def strict_letter(row, u):
    cum = 0.0
    for j in range(4):
        cum += float(row[j])
        if u < cum:
            return OPTIONS[j]
    return 'Z'


def check_table(out, em, code, cls, size, direction, p, name, kwargs, mech):
    desc = {'cls': cls, 'size': list(size), 'direction': direction, 'p': p,
            'noise_deformation': name, 'kwargs': kwargs}
    got = em.probability_distribution(code, p)
    ref = ref_channel(code, cls, direction, p, name, kwargs)
    out.count('tables_compared')
    if name:
        out.count('deformed_tables')
    ok = True
    if len(got) != 4 or any(np.asarray(g).shape != (code.n,) for g in got):
        out.violation(f'{mech}/table-shape',
                      'probability_distribution is not 4 arrays of length n',
                      desc)
        return None
    G = np.stack([np.asarray(g, dtype=float) for g in got], axis=1)
    if np.any(G < 0):
        ok = False
        out.violation(f'{mech}/negative-probability',
                      'negative entry in the probability table', desc)
    if np.max(np.abs(G.sum(axis=1) - 1)) > 1e-12:
        ok = False
        out.violation(f'{mech}/not-normalised',
                      f'per-qubit probabilities sum to '
                      f'{G.sum(axis=1)[np.argmax(np.abs(G.sum(axis=1) - 1))]}',
                      desc)
    if np.max(np.abs(G - ref)) > 1e-15:
        ok = False
        i = int(np.argmax(np.max(np.abs(G - ref), axis=1)))
        out.violation(f'{mech}/table-differs-from-stated-channel',
                      f'qubit {i} at {code.qubit_coordinates[i]}: got '
                      f'{G[i].tolist()}, stated channel {ref[i].tolist()} '
                      f'({int(np.sum(np.max(np.abs(G - ref), axis=1) > 1e-15))}'
                      f' of {code.n} qubits differ)', desc)
    out.case(dict(desc, k='table'), nontrivial=p > 0)
    return G if ok else None


def check_sampling(out, em, code, G, desc, mech, rng, nrandom):
    """Scripted variates -> Pauli.  G: the (already verified) table."""
    from panqec import bpauli
    n = code.n
    us = list(np.arange(257) / 257.0 + 1e-4)
    us = [u for u in us if u < 1]
    # every cumulative boundary of every distinct row, +- 1 ulp
    rows = {tuple(r) for r in G.tolist()}
    nb = 0
    for r in rows:
        cum = 0.0
        for j in range(3):
            cum += r[j]
            for v in (cum, math.nextafter(cum, 0.0), math.nextafter(cum, 2.0)):
                if 0 <= v < 1:
                    us.append(v)
                    nb += 1
    us += [0.0, math.nextafter(1.0, 0.0)]
    out.count('boundary_variates', nb)
    seqs = [[u] * n for u in us]
    for _ in range(nrandom):
        seqs.append(rng.random(n).tolist())
    for si, seq in enumerate(seqs):
        srng = ScriptedRNG(seq) if si % 2 == 0 else ScalarOnlyRNG(seq)
        if si % 2:
            out.count('generate_calls_with_scalar_only_rng')
        try:
            e = np.asarray(em.generate(code, desc['p'], rng=srng))
        except AssertionError as ex:
            out.violation(f'{mech}/generate-rng-misuse', str(ex), desc)
            return
        out.count('scripted_generate_calls')
        out.count('variates_consumed', srng.used)
        if srng.used != n:
            out.violation(f'{mech}/variates-consumed',
                          f'generate consumed {srng.used} variates for '
                          f'n={n} qubits', desc)
            return
        if e.shape != (2 * n,) or not np.all((e == 0) | (e == 1)):
            out.violation(f'{mech}/generate-not-binary-2n',
                          f'generate returned shape {e.shape}, dtype '
                          f'{e.dtype}', desc)
            return
        if e.dtype != np.uint8:
            out.count('generate_non_uint8')
        letters = [OPTIONS[int(e[i]) + 2 * int(e[n + i])
                           if not (e[i] and e[n + i]) else 2]
                   for i in range(n)]
        # mapping: (x,z)=(0,0) I, (1,0) X, (1,1) Y, (0,1) Z
        letters = ['I' if not e[i] and not e[n + i] else
                   'X' if e[i] and not e[n + i] else
                   'Y' if e[i] and e[n + i] else 'Z' for i in range(n)]
        for i in range(n):
            u = seq[i]
            if letters[i] not in allowed_letters(G[i], u):
                out.violation(
                    f'{mech}/variate-to-pauli',
                    f'qubit {i}: variate {u!r} gave {letters[i]} but the '
                    f'CDF of {G[i].tolist()} puts it in '
                    f'{strict_letter(G[i], u)}',
                    dict(desc, qubit=i, u=u, row=G[i].tolist()))
                return
    out.case(dict(desc, k='sampling'), nontrivial=desc['p'] > 0,
             n=len(seqs), distinct=len(seqs))
    # end points
    if desc['p'] == 0 or desc['p'] == 1:
        e = np.asarray(em.generate(code, desc['p'],
                                   rng=np.random.default_rng(1)))
        weight = int(np.sum(e[:n] | e[n:]))
        out.count('endpoint_checks')
        if desc['p'] == 0 and weight != 0:
            out.violation(f'{mech}/p0-gives-error', 'p=0 produced an error',
                          desc)
        if desc['p'] == 1 and weight != n:
            out.violation(f'{mech}/p1-leaves-identity',
                          f'p=1 left {n - weight} qubits error-free', desc)


def check_weights(out, em, code, G, desc, mech):
    wx, wz = em.get_weights(code, desc['p'])
    out.count('get_weights_calls')
    for nm, w, q in (('x', wx, G[:, 1] + G[:, 2]), ('z', wz, G[:, 3] + G[:, 2])):
        bad = compare_llr(np.asarray(w, dtype=float), q)
        if bad is not None:
            out.violation(f'{mech}/get_weights-{nm}',
                          f'weights_{nm}[{bad[0]}]={bad[1]} but marginal '
                          f'q={bad[2]} gives log((1-q)/q)={bad[3]}', desc)


def compare_llr(w, q):
    for i in range(len(q)):
        qi = float(q[i])
        if qi < 1e-12:
            if not w[i] > 25:
                return (i, float(w[i]), qi, 'inf')
            continue
        if qi > 1 - 1e-12:
            if not w[i] < -25:
                return (i, float(w[i]), qi, '-inf')
            continue
        ref = math.log((1 - qi) / qi)
        if abs(w[i] - ref) > 1e-9 * max(1.0, abs(ref)):
            return (i, float(w[i]), qi, ref)
    return None


# ------------------------------------------------------------ decoder priors

class Recorder:
    def __init__(self):
        self.events = []


def install_proxies(rec):
    """Recording stand-ins bound in panqec's module namespaces."""
    import panqec.decoders.matching._matching_decoder as mm
    import panqec.decoders.belief_propagation.bposd_decoder as bm
    real_matching = mm.Matching
    real_bposd = bm.BpOsdDecoder

    def matching_proxy(H, *a, **kw):
        w = kw.get('spacelike_weights', kw.get('weights'))
        rec.events.append(('matching', H, None if w is None else
                           np.array(w, dtype=float)))
        return real_matching(H, *a, **kw)

    class BpOsdProxy:
        def __init__(self, H, *a, **kw):
            self._real = real_bposd(H, *a, **kw)
            self._H = H
            rec.events.append(('bposd-init', H, kw.get('error_rate'),
                               kw.get('osd_order')))

        def update_channel_probs(self, v):
            rec.events.append(('bposd-probs', self._H,
                               np.array(v, dtype=float)))
            return self._real.update_channel_probs(v)

        def decode(self, s):
            in_force = np.array(self._real.channel_probs, dtype=float)
            r = self._real.decode(s)
            rec.events.append(('bposd-decode', self._H, np.array(s),
                               np.array(r), in_force))
            return r

        def __getattr__(self, name):
            return getattr(self._real, name)

    mm.Matching = matching_proxy
    bm.BpOsdDecoder = BpOsdProxy

    def undo():
        mm.Matching = real_matching
        bm.BpOsdDecoder = real_bposd
    return undo


def same_matrix(A, B):
    A = A.tocsr() if hasattr(A, 'tocsr') else A
    B = B.tocsr() if hasattr(B, 'tocsr') else B
    return A.shape == B.shape and (A != B).nnz == 0


def check_priors(out, em, code, cls, G, desc, mech, rng):
    from panqec.decoders import MatchingDecoder, BeliefPropagationOSDDecoder
    n = code.n
    p = desc['p']
    qx = G[:, 1] + G[:, 2]          # X-flip marginal
    qz = G[:, 3] + G[:, 2]          # Z-flip marginal
    rec = Recorder()
    undo = install_proxies(rec)
    try:
        # ---- matching weights reach the right matrices ------------------
        if cls in ('Toric2DCode', 'Planar2DCode', 'RotatedPlanar2DCode') \
                and code.is_css:
            MatchingDecoder(code, em, p)
            ev = [e for e in rec.events if e[0] == 'matching']
            if len(ev) != 2:
                out.violation(f'{mech}/matching-proxy',
                              f'{len(ev)} Matching objects built', desc)
            # the one-sector set-ups get the weights of their own sector
            for et in ('X', 'Z'):
                rec.events.clear()
                MatchingDecoder(code, em, p, error_type=et)
                ev1 = [e for e in rec.events if e[0] == 'matching']
                out.count('one_sector_matching_setups')
                if len(ev1) != 1:
                    out.violation(f'{mech}/matching-proxy/error_type-{et}',
                                  f'{len(ev1)} Matching objects built for '
                                  f'error_type={et!r}', desc)
                ev += ev1
            for _, H, w in ev:
                out.count('matching_weight_vectors')
                if same_matrix(H, code.Hz) and not same_matrix(H, code.Hx):
                    q, nm = qx, 'Hz<-x-flip'
                elif same_matrix(H, code.Hx) and not same_matrix(H, code.Hz):
                    q, nm = qz, 'Hx<-z-flip'
                elif same_matrix(H, code.Hx):
                    q, nm = None, 'ambiguous'
                else:
                    out.violation(f'{mech}/matching-unknown-matrix',
                                  'Matching built on a matrix that is '
                                  'neither Hx nor Hz', desc)
                    continue
                if w is None:
                    out.violation(f'{mech}/matching-no-weights',
                                  'Matching built without weights', desc)
                    continue
                if q is None:
                    continue
                bad = compare_llr(w, q)
                if bad is not None:
                    out.violation(
                        f'{mech}/matching-weights/{nm}',
                        f'weight[{bad[0]}]={bad[1]} on {nm} but marginal '
                        f'{bad[2]} gives {bad[3]}', desc)
        rec.events.clear()
        # ---- BP-OSD channel probabilities --------------------------------
        if 0 < p < 1:
            for cu in (False, True):
                if cu and not code.is_css:
                    continue
                dec = BeliefPropagationOSDDecoder(code, em, p,
                                                  channel_update=cu,
                                                  max_bp_iter=10)
                e = (rng.random(2 * n) < 0.15).astype('uint8')
                s = code.measure_syndrome(e)
                rec.events.clear()
                dec.decode(s)
                probs = [x for x in rec.events if x[0] == 'bposd-probs']
                decs = [x for x in rec.events if x[0] == 'bposd-decode']
                if code.is_css:
                    for ev in probs[:2]:
                        out.count('bposd_prior_vectors')
                        H, v = ev[1], ev[2]
                        on_hz = same_matrix(H, code.Hz)
                        on_hx = same_matrix(H, code.Hx)
                        if on_hz and not on_hx:
                            q, nm = qx, 'x_decoder(Hz)<-x-flip'
                        elif on_hx and not on_hz:
                            q, nm = qz, 'z_decoder(Hx)<-z-flip'
                        elif on_hx and on_hz:
                            continue
                        else:
                            out.violation(f'{mech}/bposd-unknown-matrix',
                                          'prior sent to unknown matrix',
                                          desc)
                            continue
                        if v.shape != q.shape or \
                                np.max(np.abs(v - q)) > 1e-15:
                            out.violation(
                                f'{mech}/bposd-prior/{nm}',
                                f'channel probs for {nm} differ from the '
                                f'flip marginal (max diff '
                                f'{np.max(np.abs(v - q)) if v.shape == q.shape else "shape"})',
                                desc)
                    if cu:
                        # conditional update after the Z decode
                        zdec = [d for d in decs
                                if same_matrix(d[1], code.Hx)]
                        upd = [x for x in probs[2:]
                               if same_matrix(x[1], code.Hz)]
                        if not zdec or not upd:
                            out.violation(f'{mech}/bposd-update-missing',
                                          'channel_update=True but no '
                                          'conditional update observed',
                                          desc)
                        else:
                            zc = zdec[0][3]
                            ref = np.zeros(n)
                            for i in range(n):
                                if zc[i] == 1:
                                    den = G[i, 3] + G[i, 2]
                                    ref[i] = G[i, 2] / den if den else 0.0
                                else:
                                    ref[i] = G[i, 1] / (1 - G[i, 3] - G[i, 2])
                            out.count('bposd_conditional_updates')
                            if np.max(np.abs(upd[0][2] - ref)) > 1e-12:
                                out.violation(
                                    f'{mech}/bposd-conditional-update',
                                    'P(X-flip | decided Z-flip) differs '
                                    'from Bayes on the stated channel',
                                    desc)
                else:
                    for ev in probs[:1]:
                        out.count('bposd_prior_vectors')
                        v = ev[2]
                        ref = np.concatenate([qz, qx])
                        if v.shape != ref.shape or \
                                np.max(np.abs(v - ref)) > 1e-15:
                            out.violation(
                                f'{mech}/bposd-prior/noncss-[z|x]',
                                'non-CSS channel probs are not '
                                '[z-flip | x-flip] marginals', desc)
                init = [x for x in rec.events if x[0] == 'bposd-init']
                if not cu:
                    # the decoder is kept and its error rate changed (a sweep
                    # re-using one object): the priors in force at the next
                    # decode are those of the new rate
                    p2 = p / 2
                    dec.error_rate = p2
                    rec.events.clear()
                    dec.decode(s)
                    T2 = ref_channel(code, cls, tuple(desc['direction']), p2,
                                     desc.get('noise_deformation'),
                                     desc.get('kwargs') or {})
                    q2x = T2[:, 1] + T2[:, 2]
                    q2z = T2[:, 3] + T2[:, 2]
                    for ev in [x for x in rec.events
                               if x[0] == 'bposd-decode']:
                        H, v = ev[1], ev[4]
                        out.count('bposd_priors_in_force_after_rate_change')
                        if code.is_css:
                            on_hz = same_matrix(H, code.Hz)
                            on_hx = same_matrix(H, code.Hx)
                            if on_hz == on_hx:
                                continue
                            q = q2x if on_hz else q2z
                        else:
                            q = np.concatenate([q2z, q2x])
                        if v.shape != q.shape or \
                                np.max(np.abs(v - q)) > 1e-15:
                            out.violation(
                                f'{mech}/bposd-prior/after-error-rate-change',
                                f'decoder reused after error_rate {p} -> '
                                f'{p2}: the priors in force at decode time '
                                'are not the flip marginals of the new rate',
                                desc)
                            break
    except Exception as e:
        where = panqec_frame(e)
        if where is None:
            raise
        out.violation(f'{mech}/priors-raises-{type(e).__name__}',
                      f'{type(e).__name__}: {e} at {where}', desc)
    finally:
        undo()
    # the decoders above were handed this model's (cached) table: it must
    # still be the stated channel afterwards
    T = np.stack([np.asarray(x, dtype=float) for x in
                  em.probability_distribution(code, p)], axis=1)
    out.count('tables_reread_after_decoding')
    if T.shape != G.shape or np.max(np.abs(T - G)) > 0:
        i = int(np.argmax(np.max(np.abs(T - G), axis=1)))
        out.violation(f'{mech}/table-changed-after-decoding',
                      f'after building / running decoders on it the model '
                      f'returns a different table: qubit {i} {T[i].tolist()} '
                      f'vs {G[i].tolist()}', desc)


# ------------------------------------------------------------------- driver

CODE_SETS = {
    'quick': {
        'Toric2DCode': [(3, 4), (4, 3)], 'Planar2DCode': [(2, 3), (3, 2)],
        'RotatedPlanar2DCode': [(3, 4), (4, 3)],
        'Toric3DCode': [(2, 3, 2)], 'Planar3DCode': [(2, 3, 4), (2, 4, 3)],
        'RotatedPlanar3DCode': [(2, 3, 2), (3, 2, 2)],
        'RotatedToric3DCode': [(2, 4, 2)],
        'RhombicToricCode': [(2, 2, 2)], 'RhombicPlanarCode': [(2, 3, 2),
                                                               (3, 2, 2)],
        'HollowRhombicCode': [(2, 2, 3)], 'XCubeCode': [(2, 2, 3)],
        'Color666ToricCode': [(2, 2)], 'Color488Code': [(1, 2), (2, 1)],
        'Color666PlanarCode': [(2, 2)], 'Color3DCode': [(2, 2, 2)],
        'HollowPlanar3DCode': [(2, 2, 2)],
    },
}
CODE_SETS['thorough'] = {k: v + extra for (k, v), extra in zip(
    CODE_SETS['quick'].items(),
    [[(2, 2), (5, 3)], [(4, 4)], [(5, 5), (2, 6), (6, 2)], [(3, 3, 3)],
     [(3, 3, 3), (4, 2, 3), (4, 3, 2)], [(3, 3, 3), (2, 2, 3)],
     [(4, 3, 2), (2, 3, 3)], [(2, 4, 2), (4, 2, 2)], [(3, 3, 3), (2, 2, 4)],
     [(3, 3, 4), (4, 3, 3)], [(3, 3, 3), (2, 3, 2)], [(3, 3), (1, 1)],
     [(2, 2), (2, 3), (3, 2)], [(4, 4)], [(2, 2, 4)], [(3, 3, 3)]])}


def plan(tier, seed):
    rng = np.random.default_rng([seed, 707])
    dirs = simplex_grid()
    extra = rng.dirichlet([1, 1, 1], size=4 if tier == 'quick' else 30)
    dirs += [tuple(float(x) for x in d / d.sum()) for d in extra]
    dirs += [(0.5, 0.3, 0.2), (1 / 3, 1 / 3, 1 / 3)]
    if tier == 'quick':
        keep = [d for d in dirs if sorted(d) in ([0, 0, 1.0],)] + \
            [(0.5, 0.3, 0.2), (1 / 3, 1 / 3, 1 / 3), (0.2, 0.6, 0.2),
             (0.0, 0.4, 0.6), (0.4, 0.0, 0.6), (0.2, 0.2, 0.6)] + dirs[-6:-2]
        dirs = list(dict.fromkeys(keep))
    names = [None, 'XZZX', 'XY', 'Checkerboard XZZX', 'X3Z3', 'XXZZ']
    tasks = []
    for d in dirs:
        for name in names:
            tasks.append({'direction': list(d), 'name': name, 'tier': tier,
                          'seed': seed, 'cost': 10 if name else 16})
    tasks.append({'kind': 'usercode', 'seed': seed, 'cost': 40})
    if tier == 'thorough':
        tasks.append({'kind': 'contracts', 'cost': 60})
    if tier == 'thorough':
        tasks.append({'kind': 'chi2', 'seed': seed, 'cost': 60})
    return tasks


def run_model(task, out):
    """ONE PauliErrorModel object per (direction, name, kwargs), reused over
    all classes offering that deformation, all sizes and all rates."""
    from panqec.error_models import PauliErrorModel
    direction = tuple(task['direction'])
    name = task['name']
    tier = task['tier']
    rng = np.random.default_rng([task['seed'], 708,
                                 int(direction[0] * 1000),
                                 int(direction[1] * 1000)])
    rates = [0.0, 1e-3, 0.05, 0.1, 0.3, 0.5, 0.9, 1.0]
    if tier == 'quick':
        rates = [0.0, 0.05, 0.3, 1.0]
    else:
        rates += [float(x) for x in rng.random(2)]
    classes = [c for c in fam.ALL_CLASSES
               if name is None or name in fam.get_class(c).deformation_names]
    kwargs_list = [{}]
    if name == 'XZZX':
        kwargs_list = [{}, {'deformation_axis': 'x'},
                       {'deformation_axis': 'y'}, {'deformation_axis': 'z'}]
    # code objects are shared by every model of this task (as the codes of
    # a batch are shared by its error models); models that only differ in
    # deformation kwargs, or in the 6th decimal of the direction, print the
    # same label and must still be told apart
    shared_codes = {}
    models = [(direction, kwargs) for kwargs in kwargs_list]
    nzc = [i for i in range(3) if direction[i] > 1e-3]
    if len(nzc) >= 2:
        tw = list(direction)
        tw[nzc[0]] += 2e-6
        tw[nzc[1]] -= 2e-6
        models.append((tuple(tw), kwargs_list[-1]))
    live = []
    for mi, (direction, kwargs) in enumerate(models):
        em = PauliErrorModel(*direction, deformation_name=name,
                             deformation_kwargs=dict(kwargs) if kwargs
                             else None)
        live.append(em)
        if mi:
            out.count('models_sharing_label_and_code_objects')
        ncodes = 0
        for cls in classes:
            if kwargs.get('deformation_axis') == 'z' and \
                    fam.dimension(cls) == 2:
                continue
            if name == 'XZZX' and kwargs and 'deformation_axis' not in \
                    __import__('inspect').signature(
                        fam.get_class(cls).get_deformation).parameters:
                continue
            sizes = CODE_SETS[tier][cls]
            if name is None and tier == 'quick':
                sizes = sizes[:1]
            for size in sizes:
                if (cls, size) not in shared_codes:
                    shared_codes[(cls, size)] = fam.build(cls, size)
                code = shared_codes[(cls, size)]
                ncodes += 1
                mech = 'PauliErrorModel' + (f'/{name}' if name else '')
                for p in rates:
                    desc = {'cls': cls, 'size': list(size),
                            'direction': direction, 'p': p,
                            'noise_deformation': name, 'kwargs': kwargs}
                    try:
                        G = check_table(out, em, code, cls, size, direction,
                                        p, name, kwargs, mech)
                        if G is None:
                            continue
                        check_sampling(out, em, code, G, desc, mech, rng,
                                       2 if tier == 'quick' else 6)
                        check_weights(out, em, code, G, desc, mech)
                        if p in (0.05, 0.3, 0.1) and code.n <= 120:
                            check_priors(out, em, code, cls, G, desc, mech,
                                         rng)
                    except Exception as e:
                        where = panqec_frame(e)
                        if where is None:
                            raise
                        out.violation(f'{mech}/raises-{type(e).__name__}',
                                      f'{type(e).__name__}: {e} at {where}',
                                      desc)
        if ncodes > 1:
            out.count('models_reused_across_codes')
    direction = tuple(task['direction'])
    # the same channel written with other number types: integral components
    # and rates as Python ints / numpy scalars (PauliErrorModel(0, 0.3, 0.7),
    # error_rate=1), asked on fresh objects BEFORE any float query
    if any(float(x).is_integer() for x in direction):
        for tname, conv_i, conv_f in (
                ('python-int', int, float),
                ('numpy', np.int64, np.float64)):
            typed = [conv_i(x) if float(x).is_integer() else conv_f(x)
                     for x in direction]
            for kwargs in kwargs_list[:2]:
                em = PauliErrorModel(*typed, deformation_name=name,
                                     deformation_kwargs=dict(kwargs)
                                     if kwargs else None)
                for cls in classes[:6]:
                    if name == 'XZZX' and kwargs and 'deformation_axis' \
                            not in __import__('inspect').signature(
                                fam.get_class(cls).get_deformation
                            ).parameters:
                        continue
                    size = CODE_SETS[tier][cls][0]
                    code = fam.build(cls, size)
                    mech = 'PauliErrorModel' + (f'/{name}' if name else '') \
                        + '/typed-numbers'
                    for p in (conv_i(1), conv_i(0), conv_f(0.3)):
                        desc = {'cls': cls, 'size': list(size),
                                'direction': direction, 'p': float(p),
                                'noise_deformation': name, 'kwargs': kwargs,
                                'number_types': tname}
                        out.count('tables_from_integer_typed_parameters')
                        try:
                            G = check_table(out, em, code, cls, size,
                                            direction, p, name, kwargs, mech)
                            if G is not None:
                                check_sampling(out, em, code, G, desc, mech,
                                               rng, 1)
                        except Exception as e:
                            where = panqec_frame(e)
                            if where is None:
                                raise
                            out.violation(
                                f'{mech}/raises-{type(e).__name__}',
                                f'{type(e).__name__}: {e} at {where}', desc)
    # priors on a deformed (non-CSS) code with plain noise
    if name is None and direction[0] != direction[2]:
        em = PauliErrorModel(*direction)
        for cls, size, dn in (('Toric2DCode', (3, 3), 'XZZX'),
                              ('Planar2DCode', (2, 3), 'XY')):
            code = fam.build(cls, size, dn, {})
            desc = {'cls': cls, 'size': list(size), 'direction': direction,
                    'p': 0.1, 'noise_deformation': None, 'kwargs': {},
                    'code_deformation': dn}
            G = check_table(out, em, code, cls, size, direction, 0.1, None,
                            {}, 'PauliErrorModel/deformed-code')
            if G is not None:
                check_priors(out, em, code, cls, G, desc,
                             'PauliErrorModel/deformed-code', rng)


def run_user_code(task, out):
    """Codes written by a user (the documented extension point): the
    deformation dictionaries are legal single-qubit relabellings written in
    any key order, or built by inverting another dictionary."""
    from panqec.codes import Toric2DCode, Planar2DCode
    from panqec.error_models import PauliErrorModel
    rng = np.random.default_rng([task['seed'], 709])

    def make(base):
        class StaggeredCode(base):
            deformation_names = ['ZXXZ', 'invXY', 'YX', 'cyc']

            def get_deformation(self, location, deformation_name,
                                **kwargs):
                on = self.qubit_axis(location) == 'x'
                if deformation_name == 'ZXXZ':
                    return {'Z': 'X', 'X': 'Z', 'Y': 'Y'} if on else \
                        {'Y': 'Y', 'Z': 'Z', 'X': 'X'}
                if deformation_name == 'invXY':
                    xy = {'X': 'X', 'Y': 'Z', 'Z': 'Y'}
                    return {v: k for k, v in xy.items()}
                if deformation_name == 'YX':
                    return {'Y': 'X', 'X': 'Y', 'Z': 'Z'} if on else \
                        {'Z': 'Z', 'Y': 'Y', 'X': 'X'}
                if deformation_name == 'cyc':
                    return {'Z': 'X', 'Y': 'Z', 'X': 'Y'}
                raise ValueError(deformation_name)
        StaggeredCode.__name__ = 'Staggered' + base.__name__
        return StaggeredCode
    for base, size in ((Toric2DCode, (3, 4)), (Planar2DCode, (2, 3))):
        code = make(base)(*size)
        cls = base.__name__
        for name in code.deformation_names:
            for direction in ((0.2, 0.3, 0.5), (0.0, 0.4, 0.6),
                              (0.7, 0.2, 0.1), (1.0, 0.0, 0.0)):
                em = PauliErrorModel(*direction, deformation_name=name)
                mech = f'PauliErrorModel/user-code/{name}'
                for p in (0.07, 0.3, 1.0):
                    desc = {'cls': 'Staggered' + cls, 'size': list(size),
                            'direction': direction, 'p': p,
                            'noise_deformation': name, 'kwargs': {}}
                    out.count('tables_on_user_defined_codes')
                    try:
                        G = check_table(out, em, code, cls, size, direction,
                                        p, name, {}, mech)
                        if G is None:
                            continue
                        check_sampling(out, em, code, G, desc, mech, rng, 2)
                        check_weights(out, em, code, G, desc, mech)
                    except Exception as e:
                        where = panqec_frame(e)
                        if where is None:
                            raise
                        out.violation(f'{mech}/raises-{type(e).__name__}',
                                      f'{type(e).__name__}: {e} at {where}',
                                      desc)


def run_chi2(task, out):
    """Sanity: the real numpy generator reproduces the stated frequencies
    (6-sigma bound, fixed seeds) -- the scripted result is not an artefact."""
    from panqec.error_models import PauliErrorModel
    for direction, name in (((0.5, 0.3, 0.2), 'XZZX'), ((0.2, 0.2, 0.6), None),
                            ((0.1, 0.7, 0.2), 'XY')):
        em = PauliErrorModel(*direction, deformation_name=name)
        code = fam.build('Toric2DCode', (3, 4))
        n = code.n
        p = 0.3
        ref = ref_channel(code, 'Toric2DCode', direction, p, name, {})
        N = 20000
        rng = np.random.default_rng([task['seed'], 709])
        cnt = np.zeros((n, 4))
        for _ in range(N):
            e = em.generate(code, p, rng=rng)
            idx = e[:n] * 1 + e[n:] * 2      # 0 I, 1 X, 3 Y, 2 Z
            for j, k in ((0, 0), (1, 1), (3, 2), (2, 3)):
                cnt[:, k] += (idx == j)
        out.count('chi2_samples', N)
        sig = np.sqrt(ref * (1 - ref) / N)
        z = np.abs(cnt / N - ref) / np.maximum(sig, 1e-12)
        desc = {'k': 'chi2', 'direction': direction, 'name': name,
                'max_z': float(z.max())}
        out.case(desc, True, sample=desc)
        if z.max() > 6:
            out.violation('PauliErrorModel/sampling-frequency',
                          f'empirical frequency deviates {z.max():.1f} sigma',
                          desc)


def run_task(task, out):
    if task.get('kind') == 'contracts':
        from pv.pytest_contracts import run_contract_suite
        run_contract_suite(out, 'probability', 'PauliErrorModel')
        return
    if task.get('kind') == 'usercode':
        run_user_code(task, out)
        return
    if task.get('kind') == 'chi2':
        run_chi2(task, out)
    else:
        run_model(task, out)


def classify(v):
    return None


def replay(v, out):
    w = v['witness']
    task = {'direction': list(w['direction']),
            'name': w.get('noise_deformation'), 'tier': 'quick',
            'seed': v.get('seed', 0)}
    run_model(task, out)
