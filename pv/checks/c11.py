"""C11 — Monte-Carlo trials are self-consistent, reproducible and calibrated.

Monitors:
  * every run_once record (the function is wrapped where DirectSimulation
    looks it up) is re-derived by own arithmetic: syndrome(error), logical
    effect of error+correction, codespace, success;
  * after every run(k): list lengths == n_runs, estimator == n_fail/n_runs,
    p_se == sqrt(p(1-p)/(n+1)), results lists == the recorded shots;
  * reproducibility: same seed => bit-identical shots (errors, corrections,
    results); run(a);run(b) == run(a+b) for random splits;
  * calibration: on codes with n<=9 the exact failure probability
    sum_e P_ref(e) [decoder fails on e] is computed over all 4^n errors (each
    distinct syndrome decoded once by a fresh decoder, P_ref = reference
    channel) and the simulated frequency must lie within 5.5 sigma + 1/N.
"""
from __future__ import annotations

import contextlib
import io
import json
import math

import numpy as np

from pv import gf2
from pv import families as fam
from pv.common import panqec_frame
from pv.checks.c05 import decoder_classes
from pv.checks.c07 import ref_channel

PROPERTY = 'C11'
LEVEL = 'exploration'
TECHNIQUE = ('runtime monitoring: post-condition oracle on every recorded '
             'trial (run_once wrapped at its binding site), history checker '
             'for seeds / run(k) interleavings, and a calibration monitor '
             'comparing observed failure frequency with the exact value from '
             'full 4^n enumeration under a reference channel; digests of '
             'seeded runs compared across interpreter sessions with other '
             'hash seeds; support monitor on every sampled error')
MANIFEST_TEXT = ('Each of the trials executed is re-derived field by field; '
                 'whole runs are repeated with the same seed and re-split '
                 'into run(k) pieces; on every n<=9 cell (code x decoder x '
                 'noise direction x deformation x rate) the exact failure '
                 'probability is computed by enumeration and compared with '
                 'the simulated frequency at 5.5 sigma. Unbiasedness is '
                 'sampled evidence, the rest is exact.')
MANIFEST_NOTE = ('Trusted: pv/gf2.py, reference channel of C07, numpy '
                 'vectorised bit arithmetic. Calibration only for decoders '
                 'that are deterministic functions of the syndrome '
                 '(matching, union-find, BP-OSD); false-alarm probability '
                 '< 4e-8 per comparison, and each VERIF_SEED is deterministic.')
RULE = ('case = one executed trial (self-consistency), one reproduced run, '
        'or one calibration cell; distinct by (cell descriptor, seed, trial '
        'index); non-trivial = trial with a non-identity error')
ASSUMPTIONS = ['supported size family = pv/families.py']
REQUIRED_COUNTERS = ['trials_checked', 'runs_reproduced',
                     'split_runs_compared', 'calibration_cells',
                     'exact_enumerations', 'failures_observed',
                     'get_results_checked', 'batch_runs',
                     'batch_shared_error_model', 'interrupted_runs',
                     'sampled_errors_support_checked',
                     'hash_seed_sessions_compared',
                     'batch_run_calls_on_one_object',
                     'trial_records_reread_after_the_run',
                     'simulations_resumed_from_the_file']
SHARD_TIMEOUT = {'quick': 900, 'thorough': 5400}

DIRS = {'pureZ': (0.0, 0.0, 1.0), 'pureX': (1.0, 0.0, 0.0),
        'xz': (0.5, 0.0, 0.5), 'x8z2': (0.8, 0.0, 0.2), 'xy': (0.5, 0.5, 0.0),
        'depol': (1 / 3, 1 / 3, 1 / 3), 'biasZ3': (0.125, 0.125, 0.75),
        'skew': (0.5, 0.3, 0.2), 'pureY': (0.0, 1.0, 0.0),
        'biasZ30': (1 / 62, 1 / 62, 30 / 31),
        'biasX8': (0.8, 0.1, 0.1)}

CAL_CODES = [('Planar2DCode', (2, 2)), ('Planar2DCode', (2, 3)),
             ('Planar2DCode', (3, 2)), ('RotatedPlanar2DCode', (2, 2)),
             ('RotatedPlanar2DCode', (3, 3)), ('RotatedPlanar2DCode', (2, 3)),
             ('Toric2DCode', (2, 2)), ('RotatedPlanar3DCode', (2, 2, 1)),
             ('Color666PlanarCode', (1, 1)), ('Color666PlanarCode', (2, 2))]


def allowed(dname, cls):
    ac = decoder_classes()[dname].allowed_codes
    return ac is None or cls in ac


class Recorder:
    """Wraps run_once at the module attribute DirectSimulation uses."""

    def __init__(self):
        import panqec.simulation._direct_simulation as ds
        self.ds = ds
        self.orig = ds.run_once
        self.shots = []
        self.originals = []
        rec = self

        def run_once(*a, **kw):
            r = rec.orig(*a, **kw)
            rec.shots.append({k: (np.array(v) if isinstance(v, np.ndarray)
                                  else v) for k, v in r.items()})
            # the record itself (what a caller collecting trial records
            # holds), for a second look after later trials have run
            if len(rec.originals) < 600:
                rec.originals.append((len(rec.shots) - 1, r))
            return r
        ds.run_once = run_once

    def close(self):
        self.ds.run_once = self.orig


class CodeOracle:
    def __init__(self, code):
        self.n = n = code.n
        self.H = gf2.pack_rows(code.stabilizer_matrix)
        self.Lx = gf2.pack_rows(code.logicals_x)
        self.Lz = gf2.pack_rows(code.logicals_z)
        self.m = len(self.H)

    def syndrome(self, e):
        return gf2.syndrome(self.H, e, self.n)

    def effect(self, e):
        return [gf2.symp(l, e, self.n) for l in self.Lz] + \
            [gf2.symp(l, e, self.n) for l in self.Lx]


def check_shot(out, orc, shot, desc, mech):
    out.count('trials_checked')
    e = gf2.pack(shot['error'])
    c = gf2.pack(shot['correction'])
    ok = True

    def bad(tag, what):
        nonlocal ok
        ok = False
        out.violation(f'{mech}/{tag}', what,
                      dict(desc, error=shot['error'] if orc.n <= 40 else None,
                           correction=shot['correction']
                           if orc.n <= 40 else None))
    for fld in ('error', 'correction'):
        v = np.asarray(shot[fld])
        if v.shape != (2 * orc.n,) or not np.all((v == 0) | (v == 1)):
            bad(f'{fld}-not-binary-2n', f'{fld} is not a binary 2n vector')
            return False
    s_ref = orc.syndrome(e)
    if [int(x) for x in np.asarray(shot['syndrome'])] != s_ref:
        bad('syndrome', 'recorded syndrome != syndrome(recorded error)')
    resid = e ^ c
    eff = orc.effect(resid)
    if [int(x) for x in np.asarray(shot['effective_error'])] != eff:
        bad('effective_error',
            'effective_error != logical effect of error+correction')
    cs = not any(orc.syndrome(resid))
    if bool(shot['codespace']) != cs:
        bad('codespace', f"codespace={shot['codespace']} but residual "
            f'syndrome zero={cs}')
    succ = cs and not any(eff)
    if bool(shot['success']) != succ:
        bad('success', f"success={shot['success']} but codespace={cs}, "
            f'effect={eff}')
    if not succ:
        out.count('failures_observed')
    return ok


def check_results(out, sim, shots, desc, mech):
    """_results / get_results() against the recorded shots."""
    res = sim.results
    n_runs = res['n_runs']
    out.count('get_results_checked')

    def bad(tag, what):
        out.violation(f'{mech}/{tag}', what, desc)
    if n_runs != len(shots):
        bad('n_runs', f'n_runs={n_runs} but {len(shots)} trials executed')
    for key in ('effective_error', 'success', 'codespace'):
        if len(res[key]) != n_runs:
            bad('list-length', f'len({key})={len(res[key])} != n_runs='
                f'{n_runs}')
            return
    for i, sh in enumerate(shots[:n_runs]):
        if bool(res['success'][i]) != bool(sh['success']) or \
                bool(res['codespace'][i]) != bool(sh['codespace']) or \
                not np.array_equal(np.asarray(res['effective_error'][i]),
                                   np.asarray(sh['effective_error'])):
            bad('results-differ-from-trials',
                f'stored result {i} is not what trial {i} returned')
            break
    g = sim.get_results()
    n_fail = sum(1 for sh in shots if not sh['success'])
    if n_runs:
        p = n_fail / n_runs
        if g['n_runs'] != n_runs or int(g['n_fail']) != n_fail or \
                int(g['n_success']) != n_runs - n_fail:
            bad('counts', f"get_results counts {g['n_runs']}/{g['n_fail']}/"
                f"{g['n_success']} vs {n_runs}/{n_fail}")
        if abs(g['p_est'] - p) > 1e-15:
            bad('p_est', f"p_est={g['p_est']} != n_fail/n_runs={p}")
        se = math.sqrt(p * (1 - p) / (n_runs + 1))
        if abs(g['p_se'] - se) > 1e-12:
            bad('p_se', f"p_se={g['p_se']} != sqrt(p(1-p)/(n+1))={se}")


def ensure_user_decoder():
    """A decoder a user might write: matching, with the correction pushed
    to another representative of the same syndrome class (times logical
    X_0).  Legal, deliberately bad, and it answers the trivial syndrome
    non-trivially."""
    from panqec import config
    from panqec.decoders import MatchingDecoder
    if 'PvOffsetMatchingDecoder' in config.DECODERS:
        return

    class PvOffsetMatchingDecoder(MatchingDecoder):
        allowed_codes = None

        def decode(self, syndrome, **kwargs):
            c = np.asarray(super().decode(syndrome, **kwargs))
            return (c + np.asarray(self.code.logicals_x[0],
                                   dtype=c.dtype)) % 2
    config.register_decoder(PvOffsetMatchingDecoder)


def make_cell(cell, seed):
    ensure_user_decoder()
    from panqec.error_models import PauliErrorModel
    from panqec.simulation import DirectSimulation
    code = fam.build(cell['cls'], tuple(cell['size']), cell.get('code_def'),
                     {})
    ndn = cell.get('noise_def')
    em = PauliErrorModel(*DIRS[cell['noise']], deformation_name=ndn)
    kw = dict(cell.get('dec_kw') or {})
    with contextlib.redirect_stdout(io.StringIO()):
        dec = decoder_classes()[cell['decoder']](
            code, em, cell.get('dec_rate', cell['rate']), **kw)
    if (seed + len(cell['cls'])) % 2:
        sim = DirectSimulation(code, em, dec, cell['rate'], verbose=False,
                               rng=np.random.default_rng(seed))
    else:
        # the documented positional order: ..., compress, verbose, rng
        sim = DirectSimulation(code, em, dec, cell['rate'], True, False,
                               np.random.default_rng(seed))
    return code, em, dec, sim


def shots_equal(a, b):
    if len(a) != len(b):
        return f'lengths {len(a)} vs {len(b)}'
    for i, (x, y) in enumerate(zip(a, b)):
        for k in ('error', 'syndrome', 'correction', 'effective_error'):
            if not np.array_equal(np.asarray(x[k]), np.asarray(y[k])):
                return f'trial {i}: {k} differs'
        if bool(x['success']) != bool(y['success']) or \
                bool(x['codespace']) != bool(y['codespace']):
            return f'trial {i}: success/codespace differs'
    return None


def run_cell(task, out):
    cell = task['cell']
    desc = dict(cell)
    mech = f"{cell['decoder']}/{cell['cls']}"
    rng = np.random.default_rng([task['seed'], 1111, len(cell['cls']),
                                 int(cell['rate'] * 1000)])
    rec = Recorder()
    try:
        seed = int(rng.integers(0, 2 ** 31))
        N = task['N']
        # ---- run A: one long run, split into random run(k) pieces ---------
        code, em, dec, sim = make_cell(cell, seed)
        orc = CodeOracle(code)
        rec.shots = []
        splits = []
        left = N
        while left > 0:
            k = int(min(left, rng.integers(1, max(2, N // 3))))
            splits.append(k)
            left -= k
        done = 0
        with contextlib.redirect_stdout(io.StringIO()):
            for k in splits:
                sim.run(k)
                done += k
                if sim.results['n_runs'] != done:
                    out.violation(f'{mech}/n_runs-after-run',
                                  f'after run() calls totalling {done} '
                                  f"n_runs={sim.results['n_runs']}", desc)
                    break
        shotsA = rec.shots
        bad = 0
        nontriv = 0
        ref = ref_channel(code, cell['cls'], DIRS[cell['noise']],
                          cell['rate'], cell.get('noise_def'), {})
        n = code.n
        for sh in shotsA:
            if not check_shot(out, orc, sh, desc, mech):
                bad += 1
                if bad > 3:
                    break
            nontriv += bool(np.any(sh['error']))
            # the sampled error must be possible under the stated channel
            ev = np.asarray(sh['error']).astype(int)
            x, z = ev[:n], ev[n:]
            col = np.where(x & z, 2, np.where(x, 1, np.where(z, 3, 0)))
            out.count('sampled_errors_support_checked')
            if np.any(ref[np.arange(n), col] <= 0):
                q = int(np.argmax(ref[np.arange(n), col] <= 0))
                out.violation(f'{mech}/sampled-error-impossible-under-channel',
                              f'trial error has {"IXYZ"[col[q]]} on qubit '
                              f'{q}, which has probability 0 at error rate '
                              f"{cell['rate']!r}", desc)
                bad += 4
                break
        check_results(out, sim, shotsA, desc, mech)
        for i, orig in rec.originals:
            if i >= len(shotsA):
                break
            out.count('trial_records_reread_after_the_run')
            for k in ('error', 'syndrome', 'correction', 'effective_error'):
                if not np.array_equal(np.asarray(orig[k]),
                                      np.asarray(shotsA[i][k])):
                    out.violation(
                        f'{mech}/trial-record-changed-by-later-trials',
                        f'the {k} of the record returned for trial {i} no '
                        'longer reads as it did when the trial returned',
                        desc)
                    break
            else:
                continue
            break
        rec.originals = []
        out.case(dict(desc, k='trials', seed=seed), nontrivial=nontriv > 0,
                 n=len(shotsA), distinct=nontriv,
                 sample=dict(desc, trials=len(shotsA),
                             failures=sum(1 for s in shotsA
                                          if not s['success'])))
        # ---- run B: same seed, ONE run(N) ----------------------------------
        nrep = min(N, task.get('Nrep', 300))
        code2, em2, dec2, sim2 = make_cell(cell, seed)
        rec.shots = []
        with contextlib.redirect_stdout(io.StringIO()):
            sim2.run(nrep)
        shotsB = rec.shots
        out.count('runs_reproduced')
        out.count('split_runs_compared')
        d = shots_equal(shotsA[:nrep], shotsB)
        if d:
            out.violation(f'{mech}/not-reproducible',
                          f'same seed, run({nrep}) vs run split '
                          f'{splits[:6]}..: {d}', dict(desc, seed=seed))
        out.case(dict(desc, k='repro', seed=seed), True)
        # ---- calibration ---------------------------------------------------
        if task.get('calibrate') and code.n <= 9:
            n_fail = sum(1 for s in shotsA if not s['success'])
            calibrate(out, cell, code, desc, mech, n_fail, len(shotsA))
    except Exception as e:
        where = panqec_frame(e)
        if where is None:
            raise
        out.violation(f'{mech}/raises-{type(e).__name__}',
                      f'{type(e).__name__}: {e} at {where}', desc)
    finally:
        rec.close()


def exact_failure_probability(cell, code):
    """sum over all 4^n errors of P_ref(e) [fresh decoder fails on e]."""
    n = code.n
    orc = CodeOracle(code)
    N = 1 << (2 * n)
    arr = np.arange(N, dtype=np.uint32)
    ref = ref_channel(code, cell['cls'], DIRS[cell['noise']], cell['rate'],
                      cell.get('noise_def'), {})
    prob = np.ones(N)
    for i in range(n):
        x = (arr >> np.uint32(i)) & 1
        z = (arr >> np.uint32(n + i)) & 1
        idx = x + 2 * z                      # 0 I, 1 X, 2 Z, 3 Y
        lut = np.array([ref[i, 0], ref[i, 1], ref[i, 3], ref[i, 2]])
        prob *= lut[idx]

    def parity_with(mask):
        v = arr & np.uint32(mask)
        for sh in (16, 8, 4, 2, 1):
            v ^= v >> np.uint32(sh)
        return v & np.uint32(1)

    def vec_parity(values, mask):
        v = values & np.uint32(mask)
        for sh in (16, 8, 4, 2, 1):
            v ^= v >> np.uint32(sh)
        return v & np.uint32(1)

    syn = np.zeros(N, dtype=np.uint32)
    for r, h in enumerate(orc.H):
        syn |= parity_with(gf2.swap_halves(h, n)) << np.uint32(r)
    uniq = np.unique(syn)
    corr = np.zeros(N, dtype=np.uint32)
    for s in uniq.tolist():
        _, _, dec, _ = make_cell(cell, 0)
        with contextlib.redirect_stdout(io.StringIO()):
            c = np.asarray(dec.decode(gf2.unpack(s, orc.m).astype('uint8')))
        corr[syn == s] = np.uint32(gf2.pack(c))
    resid = arr ^ corr
    fail = np.zeros(N, dtype=bool)
    for h in orc.H + orc.Lx + orc.Lz:
        fail |= vec_parity(resid, gf2.swap_halves(h, n)).astype(bool)
    return float(prob[fail].sum()), float(prob.sum()), len(uniq)


def calibrate(out, cell, code, desc, mech, n_fail, N):
    p_exact, total, nsyn = exact_failure_probability(cell, code)
    out.count('exact_enumerations')
    out.count('calibration_cells')
    if abs(total - 1) > 1e-9:
        out.inconclusive_case(f'reference channel sums to {total}')
        return
    sigma = math.sqrt(max(p_exact * (1 - p_exact), 0.0) / N)
    f = n_fail / N
    z = (f - p_exact) / sigma if sigma > 0 else (0.0 if f == p_exact
                                                 else float('inf'))
    d = dict(desc, k='calibration', N=N)
    out.case(d, True, sample=dict(d, p_exact=p_exact, observed=f,
                                  z=round(z, 2), syndromes=nsyn))
    out.extra.setdefault('calibration_z', []).append(round(z, 2))
    if abs(f - p_exact) > 5.5 * sigma + 1.0 / N:
        out.violation(f'{mech}/miscalibrated',
                      f'observed failure frequency {f:.5f} over {N} trials '
                      f'vs exact {p_exact:.5f} (z={z:.1f})',
                      dict(d, p_exact=p_exact, observed=f))


def plan(tier, seed):
    tasks = []
    N = 2000 if tier == 'quick' else 20000
    decs = ['MatchingDecoder', 'UnionFindDecoder',
            'BeliefPropagationOSDDecoder']
    cells = []
    special = []
    for cls, size in CAL_CODES:
        for dname in decs:
            if not allowed(dname, cls):
                continue
            if dname == 'UnionFindDecoder':
                continue            # only period-2 tori fit in n<=9: C05 known
            names = fam.get_class(cls).deformation_names
            for noise in (['depol', 'biasZ3', 'skew', 'pureY'] if tier ==
                          'thorough' else ['depol', 'skew']):
                for ndn in [None] + (names[:1] if noise != 'depol' else []):
                    for rate in ([0.05, 0.15, 0.3] if tier == 'thorough'
                                 else [0.15]):
                        if dname == 'BeliefPropagationOSDDecoder' and \
                                noise == 'pureY':
                            continue
                        cells.append({'decoder': dname, 'cls': cls,
                                      'size': list(size), 'noise': noise,
                                      'noise_def': ndn, 'rate': rate})
            # a Clifford-deformed (non-CSS) code under BP-OSD
            if dname == 'BeliefPropagationOSDDecoder' and names:
                cells.append({'decoder': dname, 'cls': cls,
                              'size': list(size), 'noise': 'biasZ3',
                              'noise_def': None, 'rate': 0.15,
                              'code_def': names[0]})
    # decoders that may leave the code space (one-sector matcher)
    for cls, size in (('Planar2DCode', (2, 2)), ('RotatedPlanar2DCode', (2, 3)),
                      ('Planar2DCode', (2, 3))):
        for et in ('X', 'Z'):
            special.append({'decoder': 'MatchingDecoder', 'cls': cls,
                            'size': list(size), 'noise': 'skew',
                            'noise_def': None, 'rate': 0.2,
                            'dec_kw': {'error_type': et}})
    # ONE decoder set-up rate, a grid of simulated rates including the end
    # points (a decoder reused over a sweep; p = 0 given as int or float)
    for cls, size in (('Planar2DCode', (2, 2)), ('RotatedPlanar2DCode', (3, 3)),
                      ('RotatedPlanar2DCode', (2, 3))):
        for dname in ('MatchingDecoder', 'BeliefPropagationOSDDecoder'):
            for noise in ('depol', 'skew'):
                for rate in (0, 0.0, 0.04, 0.3, 1.0):
                    if (noise == 'skew') != (dname == 'MatchingDecoder') \
                            and rate not in (0, 0.0):
                        continue
                    special.append({'decoder': dname, 'cls': cls,
                                    'size': list(size), 'noise': noise,
                                    'noise_def': None, 'rate': rate,
                                    'dec_rate': 0.1})
    # decoders set up at rates where a flip marginal exceeds 1/2 (matching
    # then answers the trivial syndrome with a logical operator on lattices
    # with an odd side): the frequency must still estimate what THIS decoder
    # does
    for cls, size in (('RotatedPlanar2DCode', (3, 3)), ('Planar2DCode', (2, 2)),
                      ('Toric2DCode', (2, 2)), ('RotatedPlanar2DCode', (2, 3)),
                      ('RotatedPlanar2DCode', (3, 1)),
                      ('RotatedPlanar2DCode', (1, 3)),
                      ('Planar2DCode', (1, 3))):
        for noise, rate in (('depol', 0.9), ('pureX', 0.7), ('skew', 0.95)):
            special.append({'decoder': 'MatchingDecoder', 'cls': cls,
                            'size': list(size), 'noise': noise,
                            'noise_def': None, 'rate': rate})
    # a user-written decoder that answers the trivial syndrome non-trivially
    for cls, size in (('Planar2DCode', (2, 2)), ('RotatedPlanar2DCode', (3, 3))):
        for rate in (0.02, 0.2):
            special.append({'decoder': 'PvOffsetMatchingDecoder', 'cls': cls,
                            'size': list(size), 'noise': 'depol',
                            'noise_def': None, 'rate': rate})
    # channels with one component exactly zero but two letters per qubit
    for cls, size in (('Planar2DCode', (2, 2)), ('RotatedPlanar2DCode', (3, 3))):
        for noise in ('xz', 'x8z2', 'xy'):
            for ndn in (None, 'XZZX'):
                for rate in (0.3, 1.0):
                    special.append({'decoder': 'MatchingDecoder', 'cls': cls,
                                    'size': list(size), 'noise': noise,
                                    'noise_def': ndn, 'rate': rate,
                                    'dec_rate': 0.1})
    if tier == 'quick':
        rng = np.random.default_rng([seed, 1112])
        keep = rng.choice(len(cells), size=min(len(cells), 40), replace=False)
        cells = [cells[int(i)] for i in sorted(keep)]
    for c in cells + special:
        per = 1.3 if c['decoder'] != 'BeliefPropagationOSDDecoder' else 1.0
        tasks.append({'cell': c, 'N': N, 'calibrate': True, 'seed': seed,
                      'cost': N * per + 1500})
    # the real batch layer: ONE error-model object shared by several codes
    # of equal n (what get_simulations builds from a 'ranges' spec)
    batches = [
        ('RotatedPlanar2DCode', [(2, 3), (3, 2)], 'biasZ30', 'XZZX',
         'MatchingDecoder', 0.2),
        ('RotatedPlanar2DCode', [(3, 2), (2, 3)], 'biasZ30', 'XZZX',
         'MatchingDecoder', 0.1),
        ('RotatedPlanar2DCode', [(3, 2), (2, 3), (2, 2)], 'biasZ3', 'XZZX',
         'MatchingDecoder', 0.15),
        ('Planar2DCode', [(2, 3), (3, 2)], 'skew', 'XY',
         'MatchingDecoder', 0.15),
        ('RotatedPlanar2DCode', [(2, 4), (4, 2)], 'biasZ30', 'XZZX',
         'BeliefPropagationOSDDecoder', 0.15),
    ]
    for cls, sizes, noise, ndn, dname, rate in batches:
        tasks.append({'kind': 'batch', 'cls': cls,
                      'sizes': [list(x) for x in sizes], 'noise': noise,
                      'noise_def': ndn, 'decoder': dname, 'rate': rate,
                      'N': 2 * N if tier == 'quick' else N, 'seed': seed,
                      'cost': N * 3 * len(sizes) + 2000})
    if tier == 'thorough':
        tasks.append({'kind': 'contracts', 'cost': 60000})
    tasks.append({'kind': 'hashrepro', 'seed': seed,
                  'hash_seeds': [1, 2, 3] if tier == 'quick'
                  else [1, 2, 3, 4, 5, 6, 7, 8], 'cost': 6000})
    tasks.append({'kind': 'interrupted', 'seed': seed,
                  'reps': 4 if tier == 'quick' else 40, 'cost': 3000})
    # larger codes: self-consistency + reproducibility only
    big = [('MatchingDecoder', 'Toric2DCode', (4, 5)),
           ('MatchingDecoder', 'Planar2DCode', (5, 5)),
           ('UnionFindDecoder', 'Toric2DCode', (3, 4)),
           ('BeliefPropagationOSDDecoder', 'Toric3DCode', (2, 3, 2)),
           ('BeliefPropagationOSDDecoder', 'XCubeCode', (2, 2, 2)),
           ('BeliefPropagationOSDDecoder', 'Color666ToricCode', (2, 2)),
           ('BeliefPropagationOSDDecoder', 'RhombicPlanarCode', (2, 2, 2)),
           ('SweepMatchDecoder', 'Toric3DCode', (3, 3, 3)),
           ('SweepMatchDecoder', 'Planar3DCode', (2, 3, 3)),
           ('RotatedSweepMatchDecoder', 'RotatedPlanar3DCode', (3, 3, 3)),
           ('XCubeMatchingDecoder', 'XCubeCode', (2, 2, 3)),
           ('MemoryBeliefPropagationDecoder', 'RotatedPlanar2DCode', (2, 3))]
    for dname, cls, size in big:
        for noise, rate, ndn in (('depol', 0.08, None), ('biasZ3', 0.2, None),
                                 ('skew', 0.05, 'first')):
            names = fam.get_class(cls).deformation_names
            if ndn == 'first':
                if not names or dname == 'MemoryBeliefPropagationDecoder':
                    continue
                ndn = names[0]
            Nb = {'quick': 120, 'thorough': 1500}[tier]
            per = {'UnionFindDecoder': 16, 'SweepMatchDecoder': 40,
                   'RotatedSweepMatchDecoder': 200,
                   'XCubeMatchingDecoder': 60,
                   'MemoryBeliefPropagationDecoder': 300}.get(dname, 2)
            if per >= 40:
                Nb = max(20, Nb // 8)
            kw = {'max_bp_iter': 2} if dname.startswith('Memory') else {}
            tasks.append({'cell': {'decoder': dname, 'cls': cls,
                                   'size': list(size), 'noise': noise,
                                   'noise_def': ndn, 'rate': rate,
                                   'dec_kw': kw},
                          'N': Nb, 'calibrate': False, 'seed': seed,
                          'cost': Nb * per * 2 + 500})
    return tasks


HASH_CELLS = [
    {'decoder': 'MatchingDecoder', 'cls': 'Planar2DCode', 'size': [3, 3],
     'noise': 'depol', 'noise_def': None, 'rate': 0.15},
    {'decoder': 'MatchingDecoder', 'cls': 'Toric2DCode', 'size': [3, 4],
     'noise': 'pureY', 'noise_def': None, 'rate': 0.2},
    {'decoder': 'MatchingDecoder', 'cls': 'RotatedPlanar2DCode',
     'size': [3, 3], 'noise': 'pureZ', 'noise_def': 'XZZX', 'rate': 0.2},
    {'decoder': 'BeliefPropagationOSDDecoder', 'cls': 'Toric2DCode',
     'size': [3, 3], 'noise': 'xz', 'noise_def': None, 'rate': 0.15},
    {'decoder': 'BeliefPropagationOSDDecoder', 'cls': 'Toric3DCode',
     'size': [2, 2, 2], 'noise': 'pureX', 'noise_def': None, 'rate': 0.1},
    {'decoder': 'MatchingDecoder', 'cls': 'Planar2DCode', 'size': [2, 3],
     'noise': 'skew', 'noise_def': 'XY', 'rate': 1.0},
    {'decoder': 'UnionFindDecoder', 'cls': 'Toric2DCode', 'size': [3, 3],
     'noise': 'biasZ30', 'noise_def': None, 'rate': 0.1},
    {'decoder': 'SweepMatchDecoder', 'cls': 'Toric3DCode', 'size': [3, 3, 3],
     'noise': 'pureZ', 'noise_def': None, 'rate': 0.05},
]


def repro_digests(seed):
    """Digest of every recorded trial of a fixed list of seeded runs (runs
    in this process and in child interpreters with other hash seeds)."""
    import hashlib
    rec = Recorder()
    res = {}
    try:
        for ci, cell in enumerate(HASH_CELLS):
            code, em, dec, sim = make_cell(cell, seed + ci)
            rec.shots = []
            with contextlib.redirect_stdout(io.StringIO()):
                sim.run(7)
                sim.run(33)
            h = hashlib.blake2b(digest_size=10)
            first = None
            for sh in rec.shots:
                for k in ('error', 'syndrome', 'correction',
                          'effective_error'):
                    h.update(np.asarray(sh[k]).astype('uint8').tobytes())
                h.update(bytes([bool(sh['success']), bool(sh['codespace'])]))
            res[str(ci)] = {'digest': h.hexdigest(), 'trials': len(rec.shots),
                            'nontrivial': int(sum(bool(np.any(sh['error']))
                                                  for sh in rec.shots)),
                            'errors': [''.join(
                                'IXZY'[int(a) + 2 * int(b)] for a, b in zip(
                                    np.asarray(sh['error'])[:code.n],
                                    np.asarray(sh['error'])[code.n:]))
                                for sh in rec.shots[:40]]}
    finally:
        rec.close()
    return res


def repro_child(seed):
    print('REPRO ' + json.dumps(repro_digests(seed)))


def run_hashrepro(task, out):
    """The same seeded runs in interpreters with different string-hash
    seeds (PYTHONHASHSEED is random by default for users)."""
    import subprocess
    from pv.common import child_env, PYTHON
    seed = 1000 + task['seed']
    here = repro_digests(seed)
    mech = 'seeded-run/across-interpreter-sessions'
    for hs in task['hash_seeds']:
        env = child_env()
        env['PYTHONHASHSEED'] = str(hs)
        try:
            p = subprocess.run(
                [PYTHON, '-c', 'from pv.checks import c11; '
                 f'c11.repro_child({seed})'],
                env=env, capture_output=True, text=True, timeout=600)
        except subprocess.TimeoutExpired:
            out.inconclusive_case(f'hash-seed child {hs} timed out')
            continue
        line = [ln for ln in p.stdout.splitlines() if ln.startswith('REPRO ')]
        if p.returncode != 0 or not line:
            out.inconclusive_case(f'hash-seed child {hs} failed: '
                                  f'{p.stderr[-400:]}')
            continue
        there = json.loads(line[0][6:])
        out.count('hash_seed_sessions_compared')
        for ci, cell in enumerate(HASH_CELLS):
            a, b = here[str(ci)], there[str(ci)]
            out.count('runs_reproduced')
            out.case(dict(cell, k='hashrepro', hash_seed=hs),
                     nontrivial=a['nontrivial'] > 0, n=a['trials'])
            if a['digest'] != b['digest']:
                t = next((i for i, (x, y) in enumerate(
                    zip(a['errors'], b['errors'])) if x != y), None)
                out.violation(
                    f"{mech}/{cell['decoder']}/not-reproducible",
                    f'same seed, PYTHONHASHSEED=0 vs {hs}: '
                    + (f"first differing sampled error is trial {t}: "
                       f"{a['errors'][t]} vs {b['errors'][t]}"
                       if t is not None else 'trial records differ'),
                    dict(cell, hash_seed=hs))


class _Abort(Exception):
    pass


def run_interrupted(task, out):
    """A run(k) that is cut short (KeyboardInterrupt / exception raised by
    the decoder in a later trial); the same object is then inspected and
    continued: lists, n_runs and the estimator must stay in step."""
    rng = np.random.default_rng([task['seed'], 1114])
    for cls, size, dname in (('Toric2DCode', (3, 3), 'MatchingDecoder'),
                             ('Planar2DCode', (3, 3), 'MatchingDecoder'),
                             ('RotatedPlanar2DCode', (3, 3),
                              'BeliefPropagationOSDDecoder')):
        for exc in (KeyboardInterrupt, _Abort):
            for rep in range(task['reps']):
                cell = {'decoder': dname, 'cls': cls, 'size': list(size),
                        'noise': 'depol', 'noise_def': None, 'rate': 0.15}
                desc = dict(cell, k='interrupted-run', exc=exc.__name__)
                mech = f'{dname}/{cls}/interrupted-run'
                rec = Recorder()
                try:
                    code, em, dec, sim = make_cell(cell, int(
                        rng.integers(0, 2 ** 31)))
                    k1 = int(rng.integers(2, 12))
                    stop_at = int(rng.integers(1, k1))   # trial that dies
                    real_decode = dec.decode
                    calls = {'n': 0}

                    def decode(s, _c=calls, _r=real_decode, **kw):
                        _c['n'] += 1
                        if _c['n'] == stop_at + 1:
                            raise exc('injected')
                        return _r(s, **kw)
                    dec.decode = decode
                    rec.shots = []
                    try:
                        sim.run(k1)
                    except (KeyboardInterrupt, _Abort):
                        pass
                    dec.decode = real_decode
                    out.count('interrupted_runs')
                    done = len(rec.shots)
                    check_results(out, sim, rec.shots, desc, mech)
                    k2 = int(rng.integers(1, 6))
                    sim.run(k2)
                    check_results(out, sim, rec.shots, desc, mech)
                    if len(rec.shots) != done + k2:
                        out.violation(f'{mech}/continued-run-count',
                                      f'{len(rec.shots)} trials executed, '
                                      f'{done}+{k2} expected', desc)
                    out.case(dict(desc, k1=k1, stop_at=stop_at, k2=k2,
                                  rep=rep), True)
                except Exception as e:
                    where = panqec_frame(e)
                    if where is None:
                        raise
                    out.violation(f'{mech}/raises-{type(e).__name__}',
                                  f'{type(e).__name__}: {e} at {where}',
                                  desc)
                finally:
                    rec.close()


def run_batch(task, out):
    """read_input_dict -> BatchSimulation.run: per-simulation calibration
    and trial self-consistency, with the library's own object sharing."""
    import os
    import tempfile
    from panqec.simulation import read_input_dict
    rx, ry, rz = DIRS[task['noise']]
    spec = {'ranges': {
        'label': 'pv', 'code': {'name': task['cls'], 'parameters': [
            {'L_x': s[0], 'L_y': s[1]} for s in task['sizes']]},
        'error_model': {'name': 'PauliErrorModel', 'parameters': {
            'r_x': rx, 'r_y': ry, 'r_z': rz,
            'deformation_name': task['noise_def']}},
        'decoder': {'name': task['decoder'], 'parameters': (
            [{}, {'error_type': 'X'}]
            if task['decoder'] == 'MatchingDecoder' else
            [{}, {'osd_order': 0}])},
        'error_rate': [task['rate']]}}
    mech = f"batch/{task['decoder']}/{task['cls']}"
    work = os.environ.get('PV_WORK') or tempfile.gettempdir()
    fd, path = tempfile.mkstemp(prefix='c11-', suffix='.json', dir=work)
    os.close(fd)
    os.unlink(path)
    rec = Recorder()
    try:
        with contextlib.redirect_stdout(io.StringIO()):
            batch = read_input_dict(spec, path, verbose=False,
                                    save_frequency=97)
            sims = list(batch._simulations)
            if len({id(s.error_model) for s in sims}) == 1 and len(sims) > 1:
                out.count('batch_shared_error_model')
            for sim in sims:
                sim.rng = np.random.default_rng([task['seed'], 1113])
            # ONE batch object, run() called several times with growing
            # targets (a notebook that asks for more trials); after every
            # call each simulation's stored lists are the trials it ran
            S = len(sims)
            N = task['N']
            for target in (max(1, N // 50), N // 10, N // 3, N):
                batch.run(target)
                out.count('batch_run_calls_on_one_object')
                for j, sim in enumerate(sims):
                    mine = rec.shots[j::S]
                    d = {'k': 'batch-after-run', 'cls': task['cls'],
                         'size': list(sim.code.size), 'target': target}
                    if len(mine) != target:
                        out.violation(f'{mech}/trial-count',
                                      f'{len(mine)} trials executed by a '
                                      f'simulation after run({target})', d)
                    check_results(out, sim, mine, d, mech)
        # trials are interleaved over simulations in list order
        orcs = [CodeOracle(sim.code) for sim in sims]
        if len(rec.shots) == S * task['N']:
            badn = 0
            for i, sh in enumerate(rec.shots):
                j = i % S
                d = {'k': 'batch-trial', 'cls': task['cls'],
                     'size': list(sims[j].code.size)}
                if not check_shot(out, orcs[j], sh, d, mech):
                    badn += 1
                    if badn > 3:
                        break
        else:
            out.violation(f'{mech}/trial-count',
                          f'{len(rec.shots)} trials executed for {S} '
                          f"simulations x {task['N']}", {'cls': task['cls']})
        for sim in sims:
            desc = {'k': 'batch', 'cls': task['cls'],
                    'size': list(sim.code.size), 'noise': task['noise'],
                    'noise_def': task['noise_def'],
                    'decoder': task['decoder'], 'rate': task['rate'],
                    'sizes_in_batch': task['sizes']}
            g = sim.get_results()
            if g['n_runs'] != task['N']:
                out.violation(f'{mech}/n_runs', f"n_runs={g['n_runs']}",
                              desc)
                continue
            dk = {k: v for k, v in sim.decoder.params.items()
                  if k in ('error_type', 'osd_order') and v is not None}
            cell = {'decoder': task['decoder'], 'cls': task['cls'],
                    'size': list(sim.code.size), 'noise': task['noise'],
                    'noise_def': task['noise_def'], 'rate': task['rate'],
                    'dec_kw': dk}
            desc = dict(desc, decoder_parameters=dk)
            calibrate(out, cell, fam.build(task['cls'],
                                           tuple(sim.code.size)),
                      desc, mech, int(g['n_fail']), int(g['n_runs']))
        out.count('batch_runs')
        # a new session resumes from the file: every simulation gets back
        # ITS OWN trials (the batch holds two settings of one decoder class)
        with contextlib.redirect_stdout(io.StringIO()):
            batch2 = read_input_dict(spec, path, verbose=False)
            batch2.load_results()
        for j, (old, new) in enumerate(zip(sims, batch2._simulations)):
            out.count('simulations_resumed_from_the_file')
            a, b = old.results, new.results
            if int(b['n_runs']) != int(a['n_runs']) or \
                    [bool(x) for x in b['success']] != \
                    [bool(x) for x in a['success']] or \
                    not np.array_equal(np.asarray(b['effective_error']),
                                       np.asarray(a['effective_error'])):
                out.violation(f'{mech}/resumed-with-another-simulations-'
                              'trials', f'simulation {j} (decoder parameters '
                              f'{old.decoder.params}) resumed from the file '
                              'does not hold the trials it ran',
                              {'cls': task['cls'],
                               'size': list(old.code.size)})
    except Exception as e:
        where = panqec_frame(e)
        if where is None:
            raise
        out.violation(f'{mech}/raises-{type(e).__name__}',
                      f'{type(e).__name__}: {e} at {where}',
                      {k: task[k] for k in ('cls', 'sizes', 'noise',
                                            'noise_def', 'decoder')})
    finally:
        rec.close()
        for f in (path, path + '.gz'):
            if os.path.exists(f):
                os.unlink(f)


def run_task(task, out):
    if task.get('kind') == 'contracts':
        from pv.pytest_contracts import run_contract_suite
        run_contract_suite(out, 'run_once', 'run_once')
        return
    if task.get('kind') == 'hashrepro':
        run_hashrepro(task, out)
    elif task.get('kind') == 'interrupted':
        run_interrupted(task, out)
    elif task.get('kind') == 'batch':
        run_batch(task, out)
    else:
        run_cell(task, out)


def finalize(run, tier, seed):
    zs = run.extra.get('calibration_z', [])
    if zs:
        run.extra['calibration_z_summary'] = {
            'cells': len(zs), 'max_abs_z': max(abs(z) for z in zs),
            'mean_z': float(np.mean(zs))}
        run.extra['calibration_z'] = sorted(zs)[:5] + sorted(zs)[-5:]


def classify(v):
    return None


def replay(v, out):
    w = v['witness']
    cell = {k: w[k] for k in ('decoder', 'cls', 'size', 'noise', 'noise_def',
                              'rate') if k in w}
    for k in ('code_def', 'dec_kw'):
        if k in w:
            cell[k] = w[k]
    run_cell({'cell': cell, 'N': w.get('N', 2000), 'calibrate': True,
              'seed': v.get('seed', 0)}, out)
