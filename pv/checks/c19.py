"""C19 — generated input files cover exactly the requested parameter grid.

Monitor: the real `panqec generate-input` command is invoked (click
CliRunner, fresh directory per case); every file it leaves under
<dir>/inputs is parsed back with the simulator's own read_input_json and the
LIVE simulations are compared with a reference grid sizes x bias ratios x
error rates written from the statement: one simulation per requested
combination and nothing else, each bias ratio in its own specification,
direction = (r_other, r_other, r_bias) permuted by the bias letter, and a
min:max:step range = {min + i*step} up to and including max, nothing beyond.
"""
from __future__ import annotations

import contextlib
import glob
import io
import json
import math
import os
import shutil
import tempfile

import numpy as np

from pv import families as fam
from pv.common import panqec_frame

PROPERTY = 'C19'
LEVEL = 'exploration'
TECHNIQUE = ('runtime monitoring: the real CLI command is executed and the '
             'files it writes are read back through the simulator; the '
             'resulting live simulations are compared with an independently '
             'computed request grid (no-loss / no-extra / exactly-once)')
MANIFEST_TEXT = ('Dozens (quick) to ~1500 (thorough) generate-input '
                 'invocations over 2-D and 3-D size lists, bias letters, '
                 'lists of bias ratios incl. inf and non-integers, the three '
                 'probability-spec forms on decimal grids, every decoder / '
                 'compatible code class, deformation names and both methods; '
                 'each invocation is judged on what actually lands on disk '
                 'and parses back.')
MANIFEST_NOTE = ('Error rates are compared after rounding to 10 decimals '
                 '(binary representation of decimal steps is not a defect); '
                 'the upper bound is max + 1e-9.')
RULE = ('case = one generate-input invocation; distinct by argument tuple; '
        'non-trivial = >= 2 bias ratios or a min:max:step range')
ASSUMPTIONS = ['direction from bias ratio: r_bias = eta/(1+eta) (1 for inf), '
               'others (1-r_bias)/2 (tutorial: eta=0.5 is depolarising)']
REQUIRED_COUNTERS = ['commands_into_a_shared_directory',
                     'rewritten_specifications_read_back',
                     'user_registered_code_classes',
                     'invocations', 'files_parsed', 'simulations_compared',
                     'range_specs', 'multi_eta_invocations',
                     'splitting_invocations']

COMBOS = [
    ('Toric2DCode', 2, ['MatchingDecoder', 'UnionFindDecoder',
                        'BeliefPropagationOSDDecoder']),
    ('Planar2DCode', 2, ['MatchingDecoder', 'BeliefPropagationOSDDecoder']),
    ('RotatedPlanar2DCode', 2, ['MatchingDecoder',
                                'BeliefPropagationOSDDecoder']),
    ('Toric3DCode', 3, ['SweepMatchDecoder', 'BeliefPropagationOSDDecoder']),
    ('Planar3DCode', 3, ['SweepMatchDecoder', 'BeliefPropagationOSDDecoder']),
    ('RotatedPlanar3DCode', 3, ['RotatedSweepMatchDecoder',
                                'BeliefPropagationOSDDecoder']),
    ('XCubeCode', 3, ['XCubeMatchingDecoder', 'BeliefPropagationOSDDecoder']),
    ('RhombicPlanarCode', 3, ['BeliefPropagationOSDDecoder']),
    ('Color666PlanarCode', 2, ['BeliefPropagationOSDDecoder']),
]
SIZES = {2: ['2x2', '3x3', '2x3', '4x3', '3', '4x4', '3x5', '10x10', '12x14',
             '11', '3x10'],
         3: ['2x2x2', '2x3x2', '3x2x2', '2', '2x2x3', '3x3x3', '10x2x2',
             '2x2x11']}


def parse_size(s, dim, cls):
    parts = [int(x) for x in s.split('x')]
    Lx = parts[0]
    Ly = parts[1] if len(parts) >= 2 else parts[0]
    Lz = parts[2] if len(parts) == 3 else parts[0]
    if cls == 'Color666PlanarCode':
        return (Lx, Ly)
    return (Lx, Ly) if dim == 2 else (Lx, Ly, Lz)


def ref_direction(letter, eta):
    rb = 1.0 if eta == math.inf else eta / (1 + eta)
    ro = (1 - rb) / 2
    return {'X': (rb, ro, ro), 'Y': (ro, rb, ro), 'Z': (ro, ro, rb)}[letter]


def gen_case(rng):
    cls, dim, decs = COMBOS[int(rng.integers(0, len(COMBOS)))]
    dec = str(rng.choice(decs))
    pool = SIZES[dim]
    if cls == 'Color666PlanarCode':
        pool = ['1x1', '2x2', '3x3', '2']
    if cls in ('Color488Code', 'Color666ToricCode', 'Color3DCode',
               'RhombicToricCode', 'HollowRhombicCode'):
        pool = [x for x in pool if max(int(t) for t in x.split('x')) < 10]
    ns = int(rng.integers(1, 5))
    sizes = [pool[int(i)] for i in rng.choice(len(pool), size=min(ns,
                                                                  len(pool)),
                                              replace=False)]
    letter = str(rng.choice(['X', 'Y', 'Z']))
    eta_pool = ['0.5', '1', '3', '10', '30', '100', 'inf', '2.5', '7.25',
                '1000', '0.25', '1.5', '2', '0.1', '10.5']
    ne = int(rng.integers(1, 5))
    etas = [eta_pool[int(i)] for i in rng.choice(len(eta_pool), size=ne,
                                                 replace=False)]
    if rng.random() < 0.2:
        # a sweep towards infinite bias: directions that agree to 4 decimals
        big = ['25000', '30000', '100000', '1000000', 'inf', '20001']
        etas = [big[int(i)] for i in rng.choice(len(big), size=int(
            rng.integers(2, 5)), replace=False)]
    form = str(rng.choice(['range', 'range', 'list', 'single', 'fine']))
    if form == 'fine':
        # error rates far below the 1e-6 scale (low-rate / splitting studies)
        k = int(rng.integers(0, 3))
        if k == 0:
            rates = [2e-7]
            prob = '2e-7'
            form = 'single'
        elif k == 1:
            rates = [4e-7, 2e-6, 0.001]
            prob = '0.0000004,0.000002,0.001'
            form = 'list'
        else:
            step = float(rng.choice([2.5e-6, 5e-7, 1.25e-6]))
            nk = int(rng.integers(2, 6))
            lo, hi = 0.0, round(nk * step, 12)
            prob = f'{lo:g}:{hi:.10f}:{step:.10f}'
            rates = [round(i * step, 10) for i in range(nk + 1)]
            form = 'range'
    elif form == 'range':
        step = float(rng.choice([0.1, 0.05, 0.01, 0.005, 0.001, 0.002, 0.02,
                                 0.025]))
        k0 = int(rng.integers(0, 40))
        nk = int(rng.integers(1, 12))
        lo = round(k0 * step, 10)
        hi = round((k0 + nk) * step, 10)
        if hi > 0.6:
            lo, hi = round(0.0, 10), round(nk * step, 10)
        if rng.random() < 0.25 and abs(step - 0.005) < 1e-12:
            prob = f'{lo:g}:{hi:g}'           # default step 0.005
        else:
            prob = f'{lo:g}:{hi:g}:{step:g}'
        steps = int(round((hi - lo) / step))
        rates = [round(lo + i * step, 10) for i in range(steps + 1)]
    elif form == 'list':
        rates = sorted({round(float(x), 4)
                        for x in rng.uniform(0.01, 0.4,
                                             size=int(rng.integers(2, 6)))})
        prob = ','.join(f'{r:g}' for r in rates)
    else:
        rates = [round(float(rng.uniform(0.01, 0.4)), 4)]
        prob = f'{rates[0]:g}'
    names = fam.get_class(cls).deformation_names
    deformation = names[0] if names and rng.random() < 0.3 else None
    method = 'splitting' if rng.random() < 0.15 else 'direct'
    label = None if rng.random() < 0.6 else 'mylabel'
    return {'cls': cls, 'dim': dim, 'decoder': dec, 'sizes': sizes,
            'bias': letter, 'etas': etas, 'prob': prob, 'form': form,
            'rates': rates, 'deformation': deformation, 'method': method,
            'label': label}


def run_case(out, case, base):
    from click.testing import CliRunner
    import panqec.cli as cli
    from panqec.simulation import read_input_json
    d = tempfile.mkdtemp(prefix='c19-', dir=base)
    desc = {k: case[k] for k in ('cls', 'decoder', 'sizes', 'bias', 'etas',
                                 'prob', 'deformation', 'method', 'label')}
    mech = f"generate-input/{case['method']}"
    try:
        args = ['-d', d, '--decoder_class', case['decoder'], '-s',
                ','.join(case['sizes']), '--bias', case['bias'], '--eta',
                ','.join(case['etas']), '--prob', case['prob'],
                '--code_class', case['cls'], '-m', case['method']]
        if case['deformation']:
            args += ['--deformation_name', case['deformation']]
        if case['label']:
            args += ['-l', case['label']]
        with contextlib.redirect_stdout(io.StringIO()):
            res = CliRunner().invoke(cli.generate_input, args)
        out.count('invocations')
        if res.exit_code != 0:
            out.violation(f'{mech}/command-failed',
                          f'exit {res.exit_code}: {res.exception!r}', desc)
            return
        files = sorted(glob.glob(os.path.join(d, 'inputs', '*.json')))
        etas = [math.inf if e == 'inf' else float(e) for e in case['etas']]
        if len(etas) > 1:
            out.count('multi_eta_invocations')
        if case['form'] == 'range':
            out.count('range_specs')
        if case['method'] == 'splitting':
            out.count('splitting_invocations')
        # ---- expected grid -------------------------------------------------
        sizes = [parse_size(s, case['dim'], case['cls'])
                 for s in case['sizes']]
        expected = {}
        for eta in etas:
            dirn = tuple(round(x, 12) for x in ref_direction(case['bias'],
                                                             eta))
            for s in sizes:
                for r in case['rates']:
                    key = (s, dirn, round(r, 10))
                    expected[key] = expected.get(key, 0) + 1
        # ---- what landed on disk ----------------------------------------------
        observed = {}
        specs_per_eta = {}
        for fpath in files:
            try:
                with contextlib.redirect_stdout(io.StringIO()):
                    batch = read_input_json(fpath, os.path.join(d, 'o.json'))
            except Exception as e:
                where = panqec_frame(e)
                out.violation(f'{mech}/file-does-not-parse',
                              f'{os.path.basename(fpath)}: '
                              f'{type(e).__name__}: {e} at {where}', desc)
                continue
            out.count('files_parsed')
            with open(fpath) as f:
                raw = json.load(f)
            for sim in batch._simulations:
                out.count('simulations_compared')
                em = sim.error_model
                if abs(sum(em.direction) - 1) > 1e-9:
                    out.violation(f'{mech}/direction-not-normalised',
                                  f'direction {em.direction}', desc)
                dirn = tuple(round(float(x), 12) for x in em.direction)
                specs_per_eta.setdefault(dirn, set()).add(
                    os.path.basename(fpath))
                cname = type(sim.code).__name__
                if cname != case['cls']:
                    out.violation(f'{mech}/wrong-code-class',
                                  f'{cname} built, {case["cls"]} requested',
                                  desc)
                rates = [sim.error_rate] if case['method'] == 'direct' \
                    else list(sim.error_rates)
                dec = sim.decoder if case['method'] == 'direct' \
                    else sim.decoders[0]
                if type(dec).__name__ != case['decoder']:
                    out.violation(f'{mech}/wrong-decoder-class',
                                  f'{type(dec).__name__} built', desc)
                if em.params.get('deformation_name') != case['deformation']:
                    out.violation(f'{mech}/wrong-deformation',
                                  f"{em.params.get('deformation_name')!r} "
                                  f"instead of {case['deformation']!r}", desc)
                if case['method'] == 'splitting' and \
                        type(sim).__name__ != 'SplittingSimulation':
                    out.violation(f'{mech}/wrong-method',
                                  f'{type(sim).__name__}', desc)
                for r in rates:
                    key = (tuple(sim.code.size), dirn, round(float(r), 10))
                    observed[key] = observed.get(key, 0) + 1
        # ---- compare ----------------------------------------------------------
        missing = [k for k in expected if observed.get(k, 0) < expected[k]]
        extra = [k for k in observed if observed[k] > expected.get(k, 0)]
        hi = max(case['rates'])
        beyond = sorted({k[2] for k in extra if k[2] > hi + 1e-9})
        if missing:
            lost_dirs = {k[1] for k in missing}
            tag = 'requested-combination-missing'
            if len(etas) > 1 and all(
                    not any(o[1] == dd for o in observed) for dd in lost_dirs):
                tag += '/whole-bias-ratio-lost'
            out.violation(f'{mech}/{tag}',
                          f'{len(missing)} of {len(expected)} requested '
                          f'(size, bias, rate) combinations are in no '
                          f'generated specification, e.g. {missing[0]}; files '
                          f'on disk: {[os.path.basename(f) for f in files]}',
                          desc)
        if beyond:
            out.violation(f'{mech}/range-beyond-max',
                          f'--prob {case["prob"]} produced error rate(s) '
                          f'{beyond} above the requested maximum {hi}', desc)
        other_extra = [k for k in extra if not (k[2] > hi + 1e-9)]
        if other_extra:
            out.violation(f'{mech}/unrequested-combination',
                          f'{len(other_extra)} simulations not requested, '
                          f'e.g. {other_extra[0]}', desc)
        if not missing and len(etas) > 1:
            # each bias ratio keeps its own specification
            shared = [f for d1, f1 in specs_per_eta.items()
                      for d2, f2 in specs_per_eta.items()
                      if d1 < d2 for f in (f1 & f2)]
            if shared:
                with open(os.path.join(d, 'inputs', shared[0])) as f:
                    raw = json.load(f)
                if not isinstance(raw.get('ranges'), list):
                    out.violation(f'{mech}/bias-ratios-share-specification',
                                  f'{shared[0]} mixes several bias ratios in '
                                  'one ranges specification', desc)
        out.case(desc, nontrivial=len(etas) > 1 or case['form'] == 'range',
                 sample=dict(desc, files=[os.path.basename(f)
                                          for f in files],
                             n_expected=len(expected))
                 if len(out.samples) < 3 else None)
    finally:
        shutil.rmtree(d, ignore_errors=True)


def run_block(task, out):
    rng = np.random.default_rng([task['seed'], 1919, task['i']])
    base = os.environ.get('PV_WORK') or tempfile.gettempdir()
    for _ in range(task['n']):
        case = gen_case(rng)
        try:
            run_case(out, case, base)
        except Exception as e:
            where = panqec_frame(e)
            if where is None:
                raise
            out.violation(f'generate-input/raises-{type(e).__name__}',
                          f'{type(e).__name__}: {e} at {where}',
                          {k: case[k] for k in ('cls', 'prob', 'etas')})


def run_ranges(task, out):
    """read_range_input directly on a decimal grid of (min, max, step)."""
    from panqec.cli import read_range_input
    steps = [0.1, 0.05, 0.01, 0.005, 0.001, 0.002, 0.02, 0.025, 0.2, 0.25]
    n = 0
    for step in steps:
        for k0 in range(0, task['kmax']):
            for nk in range(1, task['nmax']):
                lo = round(k0 * step, 10)
                hi = round((k0 + nk) * step, 10)
                if hi > 1.0:
                    continue
                spec = f'{lo:g}:{hi:g}:{step:g}'
                vals = read_range_input(spec)
                n += 1
                out.count('range_specs')
                ref = [round(lo + i * step, 10) for i in range(nk + 1)]
                got = [round(float(v), 10) for v in vals]
                desc = {'k': 'read_range_input', 'spec': spec}
                if got != ref:
                    tag = 'range-beyond-max' if got and \
                        got[-1] > hi + 1e-9 else (
                        'range-misses-max' if len(got) < len(ref)
                        else 'range-values')
                    out.violation(f'read_range_input/{tag}',
                                  f'{spec} -> {got[-3:]} (len {len(got)}), '
                                  f'expected ... {ref[-2:]} (len {len(ref)})',
                                  desc)
    out.case({'k': 'read_range_input-grid', 'n': n}, True, n=n, distinct=n)


def plan(tier, seed):
    n = 320 if tier == 'quick' else 2400
    per = 10 if tier == 'quick' else 25
    tasks = [{'i': i, 'n': per, 'seed': seed, 'cost': per * 120}
             for i in range(n // per)]
    tasks.append({'kind': 'samedir', 'cost': 300})
    tasks.append({'kind': 'usercode', 'cost': 300})
    tasks.append({'kind': 'ranges', 'kmax': 12 if tier == 'quick' else 60,
                  'nmax': 10 if tier == 'quick' else 40, 'cost': 500})
    return tasks


def run_same_dir(task, out):
    """Several generate-input commands into ONE data directory (a study
    built up label by label): what an earlier command wrote must still be
    there, unchanged, after the later ones."""
    from click.testing import CliRunner
    import panqec.cli as cli
    base = os.environ.get('PV_WORK') or tempfile.gettempdir()
    sequences = [
        [('toric', '3', '0.05,0.1,0.15,0.2,0.25,0.3'), ('toric', '3', '0.1')],
        [('t', '3,10', '0.01:0.3:0.01'), ('t', '3,10', '0.1,0.2')],
        [('toric_xzzx', '3,10'), ('toric', '3')],
        [('toric', '3'), ('toric_xzzx', '3,10')],
        [('experiment_low_p', '0.5,3'), (None, '10,inf')],
        [('a', '1'), ('ab', '1,2'), ('abc', 'inf'), ('a', '5')],
        [('run.1', '3'), ('run', '3,10')],
    ]
    for seq in sequences:
        d = tempfile.mkdtemp(prefix='c19d-', dir=base)
        try:
            written = {}
            for step, item in enumerate(seq):
                label, etas = item[:2]
                prob = item[2] if len(item) > 2 else '0.1,0.2'
                args = ['-d', d, '--decoder_class', 'MatchingDecoder', '-s',
                        '3x3', '--bias', 'Z', '--eta', etas, '--prob',
                        prob, '--code_class', 'Toric2DCode']
                if label:
                    args += ['-l', label]
                before = set(os.listdir(os.path.join(d, 'inputs'))) \
                    if os.path.isdir(os.path.join(d, 'inputs')) else set()
                with contextlib.redirect_stdout(io.StringIO()):
                    res = CliRunner().invoke(cli.generate_input, args)
                out.count('invocations')
                out.count('commands_into_a_shared_directory')
                desc = {'k': 'same-directory', 'sequence': seq, 'step': step}
                if res.exit_code != 0:
                    out.violation('generate-input/same-directory/'
                                  'command-failed',
                                  f'exit {res.exit_code}: {res.exception!r}',
                                  desc)
                    break
                now = set(os.listdir(os.path.join(d, 'inputs')))
                gone = sorted(f for f in written if f not in now)
                if gone:
                    out.violation(
                        'generate-input/same-directory/earlier-files-removed',
                        f'after the command with label {label!r} the '
                        f'specification(s) {gone} written by an earlier '
                        'command are gone', desc)
                    break
                for f in now - before | {f for f in now if f.startswith(
                        label or 'experiment')}:
                    written[f] = open(os.path.join(d, 'inputs', f),
                                      'rb').read()
                # every specification in the directory still reads back, and
                # what this command wrote holds the rates it was given
                from panqec.simulation import read_input_json
                from panqec.cli import read_range_input
                want = sorted(round(float(x), 9) for x in (
                    read_range_input(prob) if ':' in prob else
                    [float(x) for x in prob.split(',')]))
                broken = False
                for f in sorted(now):
                    fp = os.path.join(d, 'inputs', f)
                    try:
                        with contextlib.redirect_stdout(io.StringIO()):
                            b = read_input_json(fp, os.path.join(d, 'o.json'))
                    except Exception as e:
                        out.violation(
                            'generate-input/same-directory/file-does-not-'
                            'parse', f'{f} after the command with label '
                            f'{label!r}: {type(e).__name__}: {e}', desc)
                        broken = True
                        break
                    mine_now = f.startswith(label or 'experiment') and (
                        f == f'{label or "experiment"}.json' or
                        f.startswith(f'{label or "experiment"}_bias_'))
                    if mine_now:
                        got = sorted({round(float(sm.error_rate), 9)
                                      for sm in b._simulations})
                        out.count('rewritten_specifications_read_back')
                        if got != want:
                            out.violation(
                                'generate-input/same-directory/rates-of-the-'
                                'rewritten-specification',
                                f'{f} holds rates {got[:6]}.. after being '
                                f'written for --prob {prob}', desc)
                            broken = True
                            break
                if broken:
                    break
                ne = len(etas.split(','))
                mine = [f for f in now - before]
                out.case(desc, True)
                if step == 0 and len(mine) != ne:
                    out.violation(
                        'generate-input/same-directory/file-count',
                        f'{len(mine)} new files for {ne} bias ratio(s)', desc)
                    break
        finally:
            shutil.rmtree(d, ignore_errors=True)


def run_user_code(task, out):
    """generate-input for a code class the user registered (3-D, with
    `dimension` declared as a property like the abstract base does)."""
    from panqec import config
    from panqec.codes import Toric3DCode, Toric2DCode

    class PvLayeredToric3DCode(Toric3DCode):
        dimension = property(lambda self: 3)

    class PvFlatToric2DCode(Toric2DCode):
        dimension = property(lambda self: 2)
    before = dict(config.CODES)
    base = os.environ.get('PV_WORK') or tempfile.gettempdir()
    try:
        config.register_code(PvLayeredToric3DCode)
        config.register_code(PvFlatToric2DCode)
        for cls, dim, sizes in (
                ('PvLayeredToric3DCode', 3, ['3x3x3', '3x3x5', '3x4x5']),
                ('PvFlatToric2DCode', 2, ['3x3', '3x5'])):
            for method in ('direct', 'splitting'):
                case = {'cls': cls, 'dim': dim,
                        'decoder': 'BeliefPropagationOSDDecoder',
                        'sizes': sizes, 'bias': 'Z', 'etas': ['10', 'inf'],
                        'prob': '0.1,0.2', 'form': 'list',
                        'rates': [0.1, 0.2], 'deformation': None,
                        'method': method, 'label': None}
                run_case(out, case, base)
                out.count('user_registered_code_classes')
    finally:
        for k in list(config.CODES):
            if k not in before:
                config.CODES.pop(k)


def run_task(task, out):
    if task.get('kind') == 'usercode':
        run_user_code(task, out)
        return
    if task.get('kind') == 'samedir':
        run_same_dir(task, out)
        return
    if task.get('kind') == 'ranges':
        run_ranges(task, out)
    else:
        run_block(task, out)


def classify(v):
    return None


def replay(v, out):
    w = v['witness']
    if w.get('k') == 'read_range_input':
        from panqec.cli import read_range_input
        print(w['spec'], '->', read_range_input(w['spec']))
        run_ranges({'kmax': 60, 'nmax': 40}, out)
        return
    case = dict(w)
    case['dim'] = fam.dimension(w['cls'])
    case['form'] = 'range' if ':' in w['prob'] else 'list'
    from panqec.cli import read_range_input
    if ':' in w['prob']:
        parts = [float(x) for x in w['prob'].split(':')]
        step = parts[2] if len(parts) == 3 else 0.005
        k = int(round((parts[1] - parts[0]) / step))
        case['rates'] = [round(parts[0] + i * step, 10) for i in range(k + 1)]
    else:
        case['rates'] = [float(x) for x in w['prob'].split(',')]
    run_case(out, case, tempfile.gettempdir())
