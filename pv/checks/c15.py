"""C15 — analysis aggregates are conserved however results are split.

Generator: a random multiset of trial records for a few (code, noise,
decoder, rate) keys; a random PARTITION of it into result files (plain,
gzip, inside a zip, nested lists written by the real `merge-results`
command, repeated keys, sub-directories, shuffled).
Monitor: the rows of Analysis(paths).get_results() and the sector columns
produced by calculate_sector_thresholds are compared with integer counts
pooled from the multiset itself and with the stated formulas; two different
partitions of the same multiset must give the same rows.
"""
from __future__ import annotations

import contextlib
import gzip
import io
import json
import math
import os
import shutil
import tempfile
import warnings
import zipfile

import numpy as np

from pv.common import panqec_frame

PROPERTY = 'C15'
LEVEL = 'exploration'
TECHNIQUE = ('runtime monitoring: conservation checker -- pooled integer '
             'counts of a generated trial multiset vs the rows the real '
             'Analysis pipeline reports for random partitions of it into '
             'files/containers; metamorphic equality across partitions')
MANIFEST_TEXT = ('Random trial multisets (k in {1,2,3,9}, arbitrary '
                 'effective-error / codespace patterns incl. all-fail, '
                 'all-success, empty sectors) are split at random over '
                 'plain / gzip / zip / merged files and directories and fed '
                 'to the real Analysis; n_trials, n_fail, p_est, p_se, word '
                 'and single-qubit rates with their standard errors, and the '
                 'X/Z sector counts are compared with an independent pooling '
                 'of the raw records.')
MANIFEST_NOTE = ('Analysis.calculate_thresholds (curve fitting, C16) is '
                 'stubbed out while the sector columns are produced; '
                 'everything else is the real pipeline incl. the real '
                 'merge-results command.  Floats compared to 1e-12.')
RULE = ('case = one (multiset, partition) pair analysed; distinct by digest '
        'of multiset+partition; non-trivial = >=2 files and >=1 key split '
        'over several files')
ASSUMPTIONS = ['standard error definition sqrt(p(1-p)/(n+1)) from the '
               'property statement']
REQUIRED_COUNTERS = ['partitions_analysed', 'rows_compared',
                     'sector_rows_compared', 'merge_results_invocations',
                     'merge_passes_before_the_final_merge',
                     'zip_containers', 'gzip_files',
                     'metamorphic_pairs_compared',
                     'single_qubit_entries_compared',
                     'single_record_dict_files', 'keys_above_255_trials',
                     'records_with_float_noise_in_rate',
                     'same_name_files_in_job_dirs']

CODES = {
    1: {'name': 'Planar2DCode', 'parameters': {'L_x': 3, 'L_y': 3,
                                                'L_z': None},
        'n': 13, 'k': 1, 'd': 3},
    2: {'name': 'Toric2DCode', 'parameters': {'L_x': 3, 'L_y': 3,
                                               'L_z': None},
        'n': 18, 'k': 2, 'd': 3},
    3: {'name': 'Toric3DCode', 'parameters': {'L_x': 3, 'L_y': 3, 'L_z': 3},
        'n': 81, 'k': 3, 'd': 3},
    9: {'name': 'XCubeCode', 'parameters': {'L_x': 2, 'L_y': 2, 'L_z': 2},
        'n': 24, 'k': 9, 'd': 2},
}


def code_of(k, L):
    """The recorded code entry for a family member of side L (sides of one
    and two digits: as strings '12' sorts before '4')."""
    c = json.loads(json.dumps(CODES[k]))
    dim3 = c['parameters']['L_z'] is not None
    c['parameters'].update({'L_x': L, 'L_y': L})
    if dim3:
        c['parameters']['L_z'] = L
    c['n'] = {1: L * L + (L - 1) ** 2, 2: 2 * L * L, 3: 3 * L ** 3,
              9: 3 * L ** 3}[k]
    c['d'] = L
    return c


def gen_multiset(rng):
    nkeys = int(rng.integers(2, 6))
    keys = []
    seen = set()
    while len(keys) < nkeys:
        k = int(rng.choice([1, 2, 3, 9]))
        rate = round(float(rng.choice([0.0, 0.01, 0.02, 0.05, 0.1, 0.15,
                                       0.2, 0.3, 1.0])), 4)
        # 'z1e7' / 'z1e8' / 'zinf': neighbouring points of a bias sweep whose
        # parameters differ only beyond the sixth decimal (round 7)
        bias = str(rng.choice(['depol', 'z', 'z1e7', 'z1e8', 'zinf']))
        eta = {'z1e7': 1e7, 'z1e8': 1e8}.get(bias)
        em = {'name': 'PauliErrorModel', 'parameters': (
            {'r_x': 1 / 3, 'r_y': 1 / 3, 'r_z': 1 / 3,
             'deformation_name': None, 'deformation_kwargs': {}}
            if bias == 'depol' else
            {'r_x': 0.0, 'r_y': 0.0, 'r_z': 1.0, 'deformation_name': None,
             'deformation_kwargs': {}}
            if bias == 'zinf' else
            {'r_x': 1 / (2 * (eta + 1)), 'r_y': 1 / (2 * (eta + 1)),
             'r_z': eta / (eta + 1), 'deformation_name': None,
             'deformation_kwargs': {}}
            if eta else
            {'r_x': 0.05, 'r_y': 0.05, 'r_z': 0.9, 'deformation_name': None,
             'deformation_kwargs': {}})}
        dec = {'name': 'BeliefPropagationOSDDecoder', 'parameters': {
            'max_bp_iter': 10, 'channel_update': False, 'osd_order': 0,
            'bp_method': 'minimum_sum'}}
        L = int(rng.choice([3, 4, 8, 12])) if k != 9 else \
            int(rng.choice([2, 4, 12]))
        if bias.startswith('z1e') or bias == 'zinf':
            # keep the neighbours at one point so that they can collide
            rate, L = 0.1, (4 if k != 9 else 2)
        ident = (k, rate, bias, L)
        if ident in seen:
            continue
        seen.add(ident)
        T = int(rng.integers(1, 60))
        if rng.random() < 0.2:
            T = int(rng.integers(600, 2500))    # counts beyond 255
        mode = str(rng.choice(['mixed', 'mixed', 'all-success', 'all-fail',
                               'no-codespace', 'x-only']))
        ee = (rng.random((T, 2 * k)) < float(rng.choice([0.25, 0.5, 0.7]))
              ).astype(int)
        cs = rng.random(T) < 0.8
        if mode == 'all-success':
            ee[:] = 0
            cs[:] = True
        elif mode == 'all-fail':
            ee[:, 0] = 1
        elif mode == 'no-codespace':
            cs[:] = False
        elif mode == 'x-only':
            ee[:, k:] = 0
        succ = cs & ~ee.any(axis=1)
        inputs = {'code': code_of(k, L), 'error_model': em, 'decoder': dec,
                  'error_rate': rate,
                  'method': {'name': 'direct', 'parameters': {}}}
        if rate == 0.0 and rng.random() < 0.5:
            inputs['error_rate'] = 0        # a grid starting at integer 0
        keys.append({'inputs': inputs, 'k': k, 'ee': ee.tolist(),
                     'big': T > 255,
                     'cs': cs.tolist(), 'succ': succ.tolist(),
                     'mode': mode})
    return keys


def pooled(key):
    ee = np.array(key['ee'], dtype=int).reshape(len(key['cs']), -1)
    cs = np.array(key['cs'], dtype=bool)
    succ = np.array(key['succ'], dtype=bool)
    k = key['k']
    n = len(cs)
    n_fail = int((~succ).sum())
    p = n_fail / n
    se = math.sqrt(p * (1 - p) / (n + 1))
    ref = {'n_trials': n, 'n_fail': n_fail, 'p_est': p, 'p_se': se,
           'p_word_est': 1 - (1 - p) ** (1 / k)}
    if p < 1:
        ref['p_word_se'] = (1 / k) * (1 - p) ** (1 / k - 1) * se
    ncs = int(cs.sum())
    for sector, block in (('X', ee[cs][:, :k]), ('Z', ee[cs][:, k:])):
        nf = int(block.sum())
        nt = k * ncs
        ref[f'n_fail_{sector}'] = nf
        ref[f'n_trials_{sector}'] = nt
        if nt:
            ps = nf / nt
            ref[f'p_est_{sector}'] = ps
            ref[f'p_se_{sector}'] = math.sqrt(ps * (1 - ps) / (nt + 1))
    sq = np.zeros((k, 4))
    sqe = np.zeros((k, 4))
    for i in range(k):
        x, z = ee[:, i], ee[:, k + i]
        vals = [1 - ((x == 0) & (z == 0)).mean(), ((x == 1) & (z == 0)).mean(),
                ((x == 1) & (z == 1)).mean(), ((x == 0) & (z == 1)).mean()]
        for j, v in enumerate(vals):
            sq[i, j] = v
            sqe[i, j] = math.sqrt(v * (1 - v) / (n + 1))
    ref['single_qubit_p_est'] = sq
    ref['single_qubit_p_se'] = sqe
    return ref


def partition(rng, keys):
    """Split each key's trials into chunks; distribute chunks over files."""
    chunks = []
    for ki, key in enumerate(keys):
        T = len(key['cs'])
        nparts = int(rng.integers(1, min(4, T) + 1))
        cuts = sorted(rng.choice(np.arange(1, T), size=nparts - 1,
                                 replace=False).tolist()) if T > 1 and \
            nparts > 1 else []
        order = rng.permutation(T)          # which trials go where
        bounds = [0] + cuts + [T]
        for a, b in zip(bounds[:-1], bounds[1:]):
            idx = order[a:b]
            chunks.append((ki, [int(i) for i in idx]))
    rng.shuffle(chunks)
    nfiles = int(rng.integers(1, len(chunks) + 1))
    files = [[] for _ in range(nfiles)]
    for j, ch in enumerate(chunks):
        files[j % nfiles if j < nfiles else int(rng.integers(0, nfiles))
              ].append(ch)
    return [f for f in files if f]


def record_of(key, idx, jitter=0):
    inputs = json.loads(json.dumps(key['inputs']))
    if jitter:
        # the same rate as another run's input grid would spell it
        # (0.15 vs 0.15000000000000002): one ulp up or down
        r = inputs['error_rate']
        inputs['error_rate'] = float(np.nextafter(r, r + jitter))
    return {'inputs': inputs,
            'results': {'n_runs': len(idx), 'wall_time': 0.01 * len(idx),
                        'effective_error': [key['ee'][i] for i in idx],
                        'success': [key['succ'][i] for i in idx],
                        'codespace': [key['cs'][i] for i in idx]}}


def write_partition(rng, keys, files, root, out):
    """Materialise the partition on disk in mixed containers; returns the
    list of paths to hand to Analysis."""
    from click.testing import CliRunner
    import panqec.cli as cli
    os.makedirs(root)
    paths = []
    zip_members = []
    plain_for_merge = []
    for fi, chunks in enumerate(files):
        jit = [int(rng.choice([0, 0, 0, 1, -1])) for _ in chunks]
        if any(jit):
            out.count('records_with_float_noise_in_rate',
                      sum(1 for j in jit if j))
        data = [record_of(keys[ki], idx, j)
                for (ki, idx), j in zip(chunks, jit)]
        kind = str(rng.choice(['json', 'gz', 'zip', 'merge', 'subdir-gz',
                               'jobdir', 'jobdir']))
        if len(data) == 1 and rng.random() < 0.5:
            data = data[0]          # a single record: top-level dict
            out.count('single_record_dict_files')
        if kind == 'json':
            p = os.path.join(root, f'r{fi}.json')
            with open(p, 'w') as f:
                json.dump(data, f)
            paths.append(p)
        elif kind == 'gz':
            p = os.path.join(root, f'r{fi}.json.gz')
            with gzip.open(p, 'wb') as f:
                f.write(json.dumps(data).encode())
            out.count('gzip_files')
            paths.append(p)
        elif kind == 'subdir-gz':
            d = os.path.join(root, f'sub{fi}', 'deeper')
            os.makedirs(d)
            p = os.path.join(d, f'r{fi}.json.gz')
            with gzip.open(p, 'wb') as f:
                f.write(json.dumps(data).encode())
            out.count('gzip_files')
            paths.append(os.path.join(root, f'sub{fi}'))
        elif kind == 'jobdir':
            # per-job directories that all call their file "results"
            d = os.path.join(root, 'jobs', f'job_{fi}')
            os.makedirs(d)
            if rng.random() < 0.5:
                p = os.path.join(d, 'results.json')
                with open(p, 'w') as f:
                    json.dump(data, f)
            else:
                p = os.path.join(d, 'results.json.gz')
                with gzip.open(p, 'wb') as f:
                    f.write(json.dumps(data).encode())
                out.count('gzip_files')
            out.count('same_name_files_in_job_dirs')
            if os.path.join(root, 'jobs') not in paths:
                paths.append(os.path.join(root, 'jobs'))
        elif kind == 'zip':
            zip_members.append((f'inner/r{fi}.json' if rng.random() < 0.5
                                else f'r{fi}.json.gz', data))
        else:
            plain_for_merge.append(data)
    if zip_members:
        zp = os.path.join(root, 'bundle.zip')
        with zipfile.ZipFile(zp, 'w') as zf:
            for name, data in zip_members:
                raw = json.dumps(data).encode()
                if name.endswith('.gz'):
                    raw = gzip.compress(raw)
                zf.writestr(name, raw)
        out.count('zip_containers')
        paths.append(zp)
    if plain_for_merge:
        # the real merge-results command nests the lists
        srcdir = os.path.join(root + '-merge-src')
        os.makedirs(srcdir)
        srcs = []
        for j, data in enumerate(plain_for_merge):
            p = os.path.join(srcdir, f'm{j}.json')
            with open(p, 'w') as f:
                json.dump(data, f)
            srcs.append(p)
        merged = os.path.join(root, 'merged-results.json.gz')

        def merge(inputs, target):
            with contextlib.redirect_stdout(io.StringIO()):
                res = CliRunner().invoke(cli.merge_results,
                                         list(inputs) + ['-o', target])
            if res.exit_code != 0 or not os.path.exists(target):
                out.violation('merge-results/failed',
                              f'merge-results exit {res.exit_code}: '
                              f'{res.output[-200:]} {res.exception}', {})
            out.count('merge_results_invocations')
        # per-job merges are merged again (and again): each pass of the real
        # command nests the lists one level deeper
        level = 0
        passes = int(rng.choice([0, 0, 1, 2]))
        while passes and len(srcs) >= 1:
            level += 1
            nxt = []
            i = 0
            while i < len(srcs):
                g = int(rng.integers(1, 3))
                tgt = os.path.join(srcdir, f'L{level}-{i}.json'
                                   + ('.gz' if rng.random() < 0.5 else ''))
                if g == 1 and rng.random() < 0.4 and len(srcs) > 1:
                    nxt.append(srcs[i])     # stays raw: mixed depths
                else:
                    merge(srcs[i:i + g], tgt)
                    nxt.append(tgt)
                i += g
            srcs = nxt
            passes -= 1
            out.count('merge_passes_before_the_final_merge')
        merge(srcs, merged)
        shutil.rmtree(srcdir, ignore_errors=True)
        paths.append(merged)
    rng.shuffle(paths)
    # sometimes hand over the whole directory instead of the file list
    if rng.random() < 0.3:
        return [root]
    return paths


def key_of_row(row):
    return (row['code'], json.dumps(row['code_params'], sort_keys=True),
            json.dumps(row['error_model_params'], sort_keys=True),
            float(row['error_rate']))


def key_of_multiset(key):
    i = key['inputs']
    return (i['code']['name'], json.dumps(i['code']['parameters'],
                                          sort_keys=True),
            json.dumps(i['error_model']['parameters'], sort_keys=True),
            float(i['error_rate']))


def analyse(paths):
    from panqec.analysis import Analysis
    with warnings.catch_warnings():
        warnings.simplefilter('ignore')
        with contextlib.redirect_stdout(io.StringIO()):
            an = Analysis(paths, verbose=False)
            an.calculate_thresholds = lambda *a, **kw: None   # C16's part
            an.calculate_sector_thresholds()
    return an.get_results()


def close(a, b, tol=1e-12):
    if isinstance(b, float) and math.isnan(b):
        return isinstance(a, float) and math.isnan(a)
    return abs(float(a) - float(b)) <= tol * max(1.0, abs(float(b)))


def compare(out, df, keys, desc, mech):
    rows = {key_of_row(r): r for _, r in df.iterrows()}
    if len(rows) != len(df):
        out.violation(f'{mech}/duplicate-rows',
                      'two result rows share (code, noise, rate)', desc)
    if len(rows) != len(keys):
        out.violation(f'{mech}/row-count',
                      f'{len(rows)} rows for {len(keys)} distinct keys', desc)
    for key in keys:
        kk = key_of_multiset(key)
        if kk not in rows:
            out.violation(f'{mech}/row-missing',
                          f'no result row for {kk}', desc)
            continue
        r = rows[kk]
        ref = pooled(key)
        out.count('rows_compared')
        w = dict(desc, key=list(kk), mode=key['mode'])
        for col in ('n_trials', 'n_fail'):
            if int(r[col]) != ref[col]:
                out.violation(f'{mech}/{col}',
                              f'{col}={int(r[col])} but the pooled multiset '
                              f'has {ref[col]}', w)
        for col in ('p_est', 'p_se', 'p_word_est', 'p_word_se'):
            if col in ref and not close(r[col], ref[col]):
                out.violation(f'{mech}/{col}',
                              f'{col}={r[col]} but definition gives '
                              f'{ref[col]}', w)
        out.count('sector_rows_compared')
        for sector in 'XZ':
            for col in (f'n_fail_{sector}', f'n_trials_{sector}'):
                if int(r[col]) != ref[col]:
                    out.violation(f'{mech}/{col}',
                                  f'{col}={int(r[col])} but the pooled '
                                  f'in-codespace count is {ref[col]}', w)
            for col in (f'p_est_{sector}', f'p_se_{sector}'):
                if col in ref and not close(r[col], ref[col]):
                    out.violation(f'{mech}/{col}',
                                  f'{col}={r[col]} vs {ref[col]}', w)
        got_e = np.asarray(r['single_qubit_p_est'], dtype=float)
        got_s = np.asarray(r['single_qubit_p_se'], dtype=float)
        out.count('single_qubit_entries_compared', ref['single_qubit_p_est'
                                                       ].size)
        if got_e.shape != ref['single_qubit_p_est'].shape or \
                np.max(np.abs(got_e - ref['single_qubit_p_est'])) > 1e-12:
            out.violation(f'{mech}/single_qubit_p_est',
                          'single-qubit estimates differ from pooled '
                          'frequencies', w)
        elif got_s.shape != ref['single_qubit_p_se'].shape or \
                np.max(np.abs(got_s - ref['single_qubit_p_se'])) > 1e-12:
            i, j = np.unravel_index(np.argmax(np.abs(
                got_s - ref['single_qubit_p_se'])), got_s.shape)
            out.violation(
                f'{mech}/single_qubit_p_se',
                f'single_qubit_p_se[{i},{j}]={got_s[i, j]} but '
                f'sqrt(p(1-p)/(n+1))={ref["single_qubit_p_se"][i, j]} '
                f'(estimate {ref["single_qubit_p_est"][i, j]})', w)
    return rows


def run_block(task, out):
    rng = np.random.default_rng([task['seed'], 1515, task['i']])
    base = os.environ.get('PV_WORK') or tempfile.gettempdir()
    for j in range(task['n']):
        keys = gen_multiset(rng)
        out.count('keys_above_255_trials', sum(1 for k in keys if k['big']))
        root = tempfile.mkdtemp(prefix='c15-', dir=base)
        try:
            rows_by_partition = []
            for rep in range(2):
                files = partition(rng, keys)
                paths = write_partition(rng, keys, files,
                                        os.path.join(root, f'p{rep}'), out)
                desc = {'keys': len(keys), 'files': len(files), 'rep': rep,
                        'k': [k['k'] for k in keys],
                        'modes': [k['mode'] for k in keys],
                        'trials': [len(k['cs']) for k in keys]}
                try:
                    df = analyse(paths)
                except Exception as e:
                    where = panqec_frame(e)
                    if where is None:
                        raise
                    out.violation(f'analysis/raises-{type(e).__name__}',
                                  f'{type(e).__name__}: {e} at {where}',
                                  desc)
                    break
                out.count('partitions_analysed')
                rows = compare(out, df, keys, desc, 'analysis')
                rows_by_partition.append(rows)
                split_keys = sum(1 for ki in range(len(keys))
                                 if sum(1 for f in files
                                        if any(c[0] == ki for c in f)) > 1)
                out.case(dict(desc, d=int(rng.integers(0, 2 ** 31))),
                         nontrivial=len(files) >= 2 and split_keys >= 1,
                         sample=dict(desc, paths=[os.path.basename(p)
                                                  for p in paths])
                         if j == 0 and rep == 0 else None)
            if len(rows_by_partition) == 2:
                out.count('metamorphic_pairs_compared')
                a, b = rows_by_partition
                for kk in a:
                    if kk not in b:
                        continue
                    for col in ('n_trials', 'n_fail', 'p_est', 'p_se',
                                'n_fail_X', 'n_fail_Z', 'n_trials_X',
                                'n_trials_Z'):
                        if not close(a[kk][col], b[kk][col]):
                            out.violation(
                                f'analysis/partition-dependent/{col}',
                                f'{col} differs between two partitions of '
                                f'the same trials: {a[kk][col]} vs '
                                f'{b[kk][col]}', {'key': list(kk)})
        finally:
            shutil.rmtree(root, ignore_errors=True)


def plan(tier, seed):
    n = 240 if tier == 'quick' else 2400
    per = 5 if tier == 'quick' else 25
    return [{'i': i, 'n': per, 'seed': seed, 'cost': per * 300}
            for i in range(n // per)]


def run_task(task, out):
    run_block(task, out)


def classify(v):
    return None


def replay(v, out):
    print('replay: multisets are generated from VERIF_SEED; re-run '
          f"VERIF_SEED={v.get('seed', 0)} ./check C15 {v.get('tier')}")
