"""C06 — decoding is a pure function of the syndrome.

Monitor: decode() outputs along multi-call histories on ONE decoder object
are compared with the output of a freshly built decoder (fresh code, fresh
error model) for the same syndrome; digests of the caller's syndrome array
and of every array of the noise model's (lru-cached) probability table are
taken before and after every call.
"""
from __future__ import annotations

import contextlib
import hashlib
import io

import numpy as np

from pv import gf2
from pv import families as fam
from pv.common import panqec_frame
from pv.checks.c05 import NOISES, allowed_classes, decoder_classes

PROPERTY = 'C06'
LEVEL = 'exploration'
TECHNIQUE = ('runtime monitoring: history checker -- recorded decode() '
             'outputs along call histories on one object vs a fresh-object '
             'reference; before/after digests of the caller\'s syndrome and '
             'of the cached probability tables; earlier results re-read after '
             'later calls; sibling decoders interleaved on one code object')
MANIFEST_TEXT = ('On tiny codes every ordered pair (previous syndrome, '
                 'syndrome) of valid syndromes is driven through one reused '
                 'decoder object and compared with fresh decoders; larger '
                 'codes get random histories of length 1-20 mixing zero, '
                 'sector-zero and dense syndromes; syndrome and probability '
                 'table digests are compared around every call. Sweep '
                 'decoders: bit-identical to fresh once the tie-break '
                 'generator is put back to its constructor state.')
MANIFEST_NOTE = ('Trusted: blake2b digests, numpy. The fresh reference is '
                 'built from a fresh code and a fresh error-model object so '
                 'that shared caches cannot make both sides wrong together.')
RULE = ('case = one decode call at the end of a recorded history; distinct = '
        '(decoder, code, noise, rate, options, history digest); non-trivial = '
        'history has >=1 earlier call with a non-zero syndrome')
ASSUMPTIONS = ['supported size family = pv/families.py',
               'sweep decoders: the tie-break generator is the only state '
               'the statement allows to be carried between calls']
REQUIRED_COUNTERS = ['history_decodes', 'fresh_reference_decodes',
                     'ordered_pairs_checked', 'syndrome_digests_compared',
                     'table_digests_compared', 'sweep_restored_comparisons',
                     'zero_after_history', 'sibling_decodes',
                     'earlier_results_rechecked',
                     'histories_with_trials_through_run_once']
SHARD_TIMEOUT = {'quick': 900, 'thorough': 3600}
EXHAUSTIVE = True
EXHAUSTIVE_SCOPE = ('all ordered pairs of valid syndromes for the (decoder, '
                    'tiny code) blocks listed in coverage.pair_blocks '
                    '(thorough: all; quick: a slice of first elements)')


def dg(a):
    a = np.ascontiguousarray(a)
    h = hashlib.blake2b(digest_size=8)
    h.update(str(a.dtype).encode() + str(a.shape).encode() + a.tobytes())
    return h.hexdigest()


def tables_digest(em, code, rate):
    return tuple(dg(t) for t in em.probability_distribution(code, rate))


TINY = {
    'MatchingDecoder': [('Toric2DCode', (2, 2)), ('Planar2DCode', (2, 2)),
                        ('Planar2DCode', (2, 3)), ('Planar2DCode', (3, 2)),
                        ('RotatedPlanar2DCode', (2, 2)),
                        ('RotatedPlanar2DCode', (2, 3)),
                        ('RotatedPlanar2DCode', (3, 3))],
    'BeliefPropagationOSDDecoder': [
        ('Toric2DCode', (2, 2)), ('Planar2DCode', (2, 2)),
        ('Planar2DCode', (2, 3)), ('RotatedPlanar2DCode', (3, 3)),
        ('RotatedPlanar3DCode', (2, 2, 1)), ('Color666PlanarCode', (1, 1)),
        ('RotatedPlanar2DCode', (2, 3))],
    'UnionFindDecoder': [('Toric2DCode', (2, 2))],
    'MemoryBeliefPropagationDecoder': [('Planar2DCode', (2, 2)),
                                       ('RotatedPlanar2DCode', (2, 3))],
}

LARGER = {
    'MatchingDecoder': [('Toric2DCode', (4, 4)), ('Planar2DCode', (5, 5)),
                        ('RotatedPlanar2DCode', (5, 4))],
    'UnionFindDecoder': [('Toric2DCode', (3, 3)), ('Toric2DCode', (4, 3))],
    'BeliefPropagationOSDDecoder': [
        ('Toric2DCode', (4, 4)), ('Toric2DCode', (3, 4)),
        ('RotatedPlanar3DCode', (2, 2, 2)),
        ('XCubeCode', (2, 2, 2)), ('Toric3DCode', (2, 2, 2)),
        ('Planar2DCode', (5, 5)), ('Color666ToricCode', (2, 2)),
        ('RhombicToricCode', (2, 2, 2)), ('Color488Code', (1, 2))],
    'XCubeMatchingDecoder': [('XCubeCode', (2, 2, 2)),
                             ('XCubeCode', (2, 2, 3)),
                             ('XCubeCode', (3, 3, 3))],
    'SweepMatchDecoder': [('Toric3DCode', (2, 2, 2)),
                          ('Toric3DCode', (3, 3, 3)),
                          ('Planar3DCode', (2, 3, 2))],
    'RotatedSweepMatchDecoder': [('RotatedPlanar3DCode', (2, 2, 2)),
                                 ('RotatedPlanar3DCode', (3, 3, 3)),
                                 ('RotatedToric3DCode', (2, 2, 2))],
    'MemoryBeliefPropagationDecoder': [('RotatedPlanar2DCode', (3, 3)),
                                       ('Toric2DCode', (3, 3)),
                                       ('Planar2DCode', (2, 3))],
}


def plan(tier, seed):
    tasks = []
    for dname, codes in TINY.items():
        for cls, size in codes:
            variants = [('depol', 0.1, None, {}, {})]
            if dname == 'BeliefPropagationOSDDecoder':
                variants = [('depol', 0.1, None, {}, {}),
                            ('biasZ3', 0.05, None, {},
                             {'channel_update': True})]
                if 'XZZX' in fam.get_class(cls).deformation_names:
                    variants.append(('biasZ3', 0.1, 'XZZX', {}, {}))
                    variants.append(('skew', 0.1, None, {},
                                     {'code_def': 'XZZX'}))
            elif dname == 'MatchingDecoder':
                variants.append(('biasZ3', 0.05, 'XZZX', {}, {}))
            for noise, rate, ndn, ndk, opts in variants:
                nslices = 1 if tier == 'quick' else 4
                for sl in range(nslices):
                    tasks.append({'kind': 'pairs', 'decoder': dname,
                                  'cls': cls, 'size': list(size),
                                  'noise': noise, 'rate': rate,
                                  'noise_def': [ndn, ndk], 'opts': opts,
                                  'slice': sl, 'nslices': nslices,
                                  'tier': tier, 'seed': seed,
                                  'cost': 3000 / nslices *
                                  (8 if tier == 'thorough' else 1)})
    nh = {'quick': 12, 'thorough': 150}[tier]
    for dname, codes in LARGER.items():
        for cls, size in codes:
            variants = [('depol', 0.1, None, {}, {}),
                        ('biasZ30', 0.03, None, {}, {})]
            names = fam.get_class(cls).deformation_names
            if names and dname != 'MemoryBeliefPropagationDecoder':
                variants.append(('biasZ3', 0.08, names[0], {}, {}))
            if dname == 'BeliefPropagationOSDDecoder':
                variants.append(('biasZ3', 0.08, None, {},
                                 {'channel_update': True}))
                if names:
                    variants.append(('depol', 0.1, None, {},
                                     {'code_def': names[0]}))
            for noise, rate, ndn, ndk, opts in variants:
                per = {'UnionFindDecoder': 16, 'XCubeMatchingDecoder': 60,
                       'MemoryBeliefPropagationDecoder': 150,
                       'SweepMatchDecoder': 40,
                       'RotatedSweepMatchDecoder': 120}.get(dname, 2)
                n_h = nh
                if dname in ('MemoryBeliefPropagationDecoder',):
                    n_h = max(10, nh // 4)
                if dname in ('RotatedSweepMatchDecoder', 'SweepMatchDecoder',
                             'XCubeMatchingDecoder', 'UnionFindDecoder'):
                    n_h = max(4, nh // 3)
                tasks.append({'kind': 'histories', 'decoder': dname,
                              'cls': cls, 'size': list(size), 'noise': noise,
                              'rate': rate, 'noise_def': [ndn, ndk],
                              'opts': opts, 'n_histories': n_h,
                              'tier': tier, 'seed': seed,
                              'cost': per * n_h * 12})
    nr = {'quick': 12, 'thorough': 80}[tier]
    for dname, codes in SIBLINGS.items():
        for cls, size in codes:
            optss = [{}]
            if dname == 'BeliefPropagationOSDDecoder' and \
                    fam.get_class(cls).deformation_names:
                optss.append({'code_def':
                              fam.get_class(cls).deformation_names[0]})
            for opts in optss:
                per = {'UnionFindDecoder': 16, 'XCubeMatchingDecoder': 60,
                       'MemoryBeliefPropagationDecoder': 150}.get(dname, 3)
                tasks.append({'kind': 'siblings', 'decoder': dname,
                              'cls': cls, 'size': list(size),
                              'noise': 'depol', 'rate': 0.1,
                              'noise_def': [None, {}], 'opts': opts,
                              'n_rounds': nr if per < 100 else nr // 3,
                              'tier': tier, 'seed': seed,
                              'cost': per * nr * 14})
    return tasks


def make(task):
    """Fresh code + fresh error model + fresh decoder."""
    from panqec.error_models import PauliErrorModel
    opts = dict(task['opts'])
    code_def = opts.pop('code_def', None)
    code = fam.build(task['cls'], tuple(task['size']), code_def, {})
    rx, ry, rz = NOISES[task['noise']]
    ndn, ndk = task['noise_def']
    em = PauliErrorModel(rx, ry, rz, deformation_name=ndn,
                         deformation_kwargs=dict(ndk) if ndk else None)
    kw = dict(opts)
    if task['decoder'] == 'MemoryBeliefPropagationDecoder':
        kw['max_bp_iter'] = 4
    with contextlib.redirect_stdout(io.StringIO()):
        dec = decoder_classes()[task['decoder']](code, em, task['rate'], **kw)
    return code, em, dec


def desc_of(task):
    return {k: task[k] for k in ('decoder', 'cls', 'size', 'noise', 'rate',
                                 'noise_def', 'opts')}


def mech_of(task, tag):
    base = f"{task['decoder']}/{task['cls']}"
    if task['opts'].get('siblings'):
        base += '/siblings-on-one-code'
    if task['opts'].get('channel_update'):
        base += '/channel_update'
    if task['opts'].get('code_def'):
        base += '/deformed'
    return f'{base}/{tag}'


def quiet_decode(dec, s):
    with contextlib.redirect_stdout(io.StringIO()):
        return np.asarray(dec.decode(s))


def sweeper_of(dec):
    return getattr(dec, 'sweeper', None)


class Monitored:
    """One long-lived decoder with digests taken around every call."""

    def __init__(self, task, out):
        self.task, self.out = task, out
        self.code, self.em, self.dec = make(task)
        self.tab0 = tables_digest(self.em, self.code, task['rate'])
        sw = sweeper_of(self.dec)
        self.rng_state0 = None if sw is None else \
            dict(sw._rng.bit_generator.state)
        self.ncalls = 0

    def decode(self, s_arr, label):
        """s_arr is handed over as is (no copy): the caller's array."""
        out, task = self.out, self.task
        before = dg(s_arr)
        with contextlib.redirect_stdout(io.StringIO()):
            c_obj = self.dec.decode(s_arr)
        c = np.asarray(c_obj)
        # a correction handed out earlier must survive later decodes
        prev = getattr(self, 'prev', None)
        if prev is not None:
            out.count('earlier_results_rechecked')
            if dg(np.asarray(prev[0])) != prev[1]:
                out.violation(mech_of(task, 'earlier-result-overwritten'),
                              'the array returned by the previous decode '
                              'changed during this decode',
                              dict(desc_of(task), label=label))
        self.prev = (c_obj, dg(c))
        self.ncalls += 1
        out.count('history_decodes')
        out.count('syndrome_digests_compared')
        if dg(s_arr) != before:
            out.violation(mech_of(task, 'syndrome-mutated'),
                          f'decode modified the caller\'s syndrome array '
                          f'({label}, call {self.ncalls})',
                          dict(desc_of(task), label=label))
        out.count('table_digests_compared')
        if tables_digest(self.em, self.code, task['rate']) != self.tab0:
            out.violation(mech_of(task, 'probability-table-altered'),
                          'the error model\'s cached probability table '
                          f'changed during decode (call {self.ncalls})',
                          dict(desc_of(task), label=label))
            self.tab0 = tables_digest(self.em, self.code, task['rate'])
        return c

    def restore_rng(self):
        sw = sweeper_of(self.dec)
        if sw is not None:
            sw._rng.bit_generator.state = dict(self.rng_state0)


class FreshRef:
    """decode(s) by a brand-new decoder (new code, new error model)."""

    def __init__(self, task, out):
        self.task, self.out = task, out
        self.cache = {}

    def get(self, s_int, m):
        if s_int not in self.cache:
            code, em, dec = make(self.task)
            s = gf2.unpack(s_int, m).astype('uint8')
            self.cache[s_int] = quiet_decode(dec, s)
            self.out.count('fresh_reference_decodes')
            # the pristine table must equal the reference channel's
        return self.cache[s_int]


def valid_syndromes(code):
    n = code.n
    H = gf2.pack_rows(code.stabilizer_matrix)
    cols = [gf2.syndrome_int(H, 1 << i, n) for i in range(2 * n)]
    return H, sorted(gf2.span(cols))


def compare(task, out, got, ref, hist_label, s_int, m, sweep_restored):
    n2 = ref.shape[0]
    w = dict(desc_of(task), history=hist_label,
             syndrome=gf2.unpack(s_int, m) if m <= 64 else None)
    if got.shape != ref.shape:
        out.violation(mech_of(task, 'shape-differs-from-fresh'),
                      f'shape {got.shape} vs fresh {ref.shape}', w)
        return False
    if not np.array_equal(got.astype(np.int64), ref.astype(np.int64)):
        tag = 'differs-from-fresh'
        if sweep_restored:
            tag = 'differs-from-fresh-with-rng-restored'
        if s_int == 0:
            tag += '/zero-syndrome'
        out.violation(mech_of(task, tag),
                      f'decode after history != fresh decoder for the same '
                      f'syndrome ({hist_label})',
                      dict(w, got=got if n2 <= 80 else None,
                           fresh=ref if n2 <= 80 else None))
        return False
    return True


def run_pairs(task, out):
    try:
        mon = Monitored(task, out)
    except Exception as e:
        if panqec_frame(e) is None:
            raise
        out.violation(mech_of(task, f'construct-raises-{type(e).__name__}'),
                      str(e), desc_of(task))
        return
    code = mon.code
    H, synd = valid_syndromes(code)
    m = len(H)
    K = len(synd)
    if K > 256:
        out.inconclusive_case(f'{task["cls"]}{task["size"]}: {K} syndromes')
        return
    fresh = FreshRef(task, out)
    firsts = list(range(K))
    if task['tier'] == 'quick':
        rng = np.random.default_rng([task['seed'], 606, K])
        firsts = sorted(rng.choice(K, size=min(K, max(4, 2048 // K)),
                                   replace=False).tolist())
        if 0 not in firsts:
            firsts = [0] + firsts
    firsts = firsts[task['slice']::task['nslices']]
    npairs = 0
    nontriv = 0
    try:
        for i in firsts:
            for j in range(K):
                a, b = synd[i], synd[j]
                sa = gf2.unpack(a, m).astype('uint8')
                mon.decode(sa, 'pair-first')
                sb = gf2.unpack(b, m).astype(['uint8', 'int64'][j % 2])
                got = mon.decode(sb, 'pair-second')
                ref = fresh.get(b, m)
                compare(task, out, got, ref, f'prev={i},cur={j}', b, m, False)
                npairs += 1
                if a:
                    nontriv += 1
                if b == 0:
                    out.count('zero_after_history')
    except Exception as e:
        where = panqec_frame(e)
        if where is None:
            raise
        out.violation(mech_of(task, f'raises-{type(e).__name__}'),
                      f'{type(e).__name__}: {e} at {where}', desc_of(task))
    out.count('ordered_pairs_checked', npairs)
    d = dict(desc_of(task), slice=task['slice'], kind='pairs')
    out.case(d, nontrivial=nontriv > 0, n=npairs, distinct=nontriv,
             sample=dict(d, syndromes=K, pairs=npairs))
    if task['tier'] == 'thorough' and task['slice'] == 0:
        out.extra.setdefault('pair_blocks', []).append(
            f"{task['decoder']}:{task['cls']}{tuple(task['size'])}:"
            f"{task['noise']}:{task['opts']}:{K}x{K}")


def random_syndrome(rng, code, H, n, kind):
    if kind == 'zero':
        return 0
    if kind in ('x-only', 'z-only'):
        q = rng.choice(n, size=int(rng.integers(1, 4)))
        e = 0
        for i in q:
            e ^= 1 << (int(i) + (n if kind == 'z-only' else 0))
        return gf2.syndrome_int(H, e, n)
    p = {'sparse': 0.05, 'dense': 0.4}[kind]
    e = gf2.pack((rng.random(2 * n) < p).astype('uint8'))
    return gf2.syndrome_int(H, e, n)


def run_histories(task, out):
    rng = np.random.default_rng([task['seed'], 607, len(task['cls']),
                                 sum(task['size'])])
    try:
        mon = Monitored(task, out)
    except Exception as e:
        where = panqec_frame(e)
        if where is None:
            raise
        out.violation(mech_of(task, f'construct-raises-{type(e).__name__}'),
                      f'{type(e).__name__}: {e} at {where}', desc_of(task))
        return
    code = mon.code
    n = code.n
    H = gf2.pack_rows(code.stabilizer_matrix)
    m = len(H)
    fresh = FreshRef(task, out)
    is_sweep = sweeper_of(mon.dec) is not None
    kinds = ['zero', 'x-only', 'z-only', 'sparse', 'sparse', 'dense']
    for h in range(task['n_histories']):
        L = int(rng.integers(1, 21)) if task['decoder'] not in (
            'MemoryBeliefPropagationDecoder', 'RotatedSweepMatchDecoder') \
            else int(rng.integers(1, 5))
        dts = ['uint8', 'int64', 'int32', 'uint8', 'int64']
        hist = [random_syndrome(rng, code, H, n, str(rng.choice(kinds)))
                for _ in range(L)]
        last_kind = str(rng.choice(kinds + ['zero']))
        s_last = random_syndrome(rng, code, H, n, last_kind)
        try:
            if h % 3 == 2:
                # one object for the whole run of histories is the default;
                # every third history starts from a new object
                mon = Monitored(task, out)
            for hi, s_int in enumerate(hist):
                mon.decode(gf2.unpack(s_int, m).astype(dts[(h + hi) % 5]),
                           'history')
            if h % 3 == 1:
                # the decoder is lent to the simulation layer for a few
                # trials at ANOTHER error rate, then used directly again
                from panqec.simulation import run_once
                other = 0.4 if task['rate'] < 0.2 else 0.02
                with contextlib.redirect_stdout(io.StringIO()):
                    for t in range(3):
                        run_once(mon.code, mon.em, mon.dec, other,
                                 rng=np.random.default_rng([h, t]))
                out.count('histories_with_trials_through_run_once')
            if is_sweep:
                # (i) without restore: validity is history independent
                s_arr = gf2.unpack(s_last, m).astype('uint8')
                got_nr = mon.decode(s_arr, 'last-no-restore')
                ref = fresh.get(s_last, m)
                if got_nr.shape != ref.shape or \
                        not np.all((got_nr == 0) | (got_nr == 1)):
                    out.violation(mech_of(task, 'invalid-after-history'),
                                  'sweep decoder output not a binary 2n '
                                  'vector after history', desc_of(task))
                elif not np.array_equal(got_nr[:n], ref[:n]):
                    out.violation(mech_of(task, 'x-part-differs-from-fresh'),
                                  'X part (deterministic matching) differs '
                                  'from fresh decoder', desc_of(task))
                # (ii) generator put back => bit-identical to fresh
                mon.restore_rng()
                got = mon.decode(gf2.unpack(s_last, m).astype('uint8'),
                                 'last-restored')
                out.count('sweep_restored_comparisons')
                compare(task, out, got, ref, f'len={L},last={last_kind}',
                        s_last, m, True)
            else:
                got = mon.decode(gf2.unpack(s_last, m).astype(dts[h % 5]),
                                 'last')
                ref = fresh.get(s_last, m)
                compare(task, out, got, ref, f'len={L},last={last_kind}',
                        s_last, m, False)
        except Exception as e:
            where = panqec_frame(e)
            if where is None:
                raise
            out.violation(mech_of(task, f'raises-{type(e).__name__}'),
                          f'{type(e).__name__}: {e} at {where}',
                          dict(desc_of(task), where=where))
            mon = Monitored(task, out)
            continue
        if s_last == 0:
            out.count('zero_after_history')
        d = dict(desc_of(task), kind='history',
                 hist=[x % (1 << 61) for x in hist[:6]], L=L,
                 last=s_last % (1 << 61))
        out.case(d, nontrivial=any(hist), sample=dict(
            desc_of(task), history_len=L, last_kind=last_kind)
            if h == 0 else None)


SIBLINGS = {
    'MatchingDecoder': [('Toric2DCode', (4, 4)), ('RotatedPlanar2DCode', (5, 4))],
    'UnionFindDecoder': [('Toric2DCode', (3, 3))],
    'BeliefPropagationOSDDecoder': [
        ('Toric2DCode', (4, 4)), ('Toric2DCode', (3, 4)),
        ('Planar2DCode', (4, 3)), ('XCubeCode', (2, 2, 2)),
        ('RotatedPlanar3DCode', (2, 2, 2))],
    'XCubeMatchingDecoder': [('XCubeCode', (2, 2, 3))],
    'MemoryBeliefPropagationDecoder': [('RotatedPlanar2DCode', (3, 3))],
}


def run_siblings(task, out):
    """Several decoders alive on ONE code object (what a batch over error
    rates builds): same class, different error rates / noise, plus decoders
    of the other classes that accept the code.  Calls are interleaved; each
    answer must be the one a fresh decoder on a fresh code gives."""
    from panqec.error_models import PauliErrorModel
    rng = np.random.default_rng([task['seed'], 608, len(task['cls']),
                                 sum(task['size'])])
    cls, size = task['cls'], tuple(task['size'])
    code_def = task['opts'].get('code_def')
    code = fam.build(cls, size, code_def, {})
    names = fam.get_class(cls).deformation_names
    cfgs = [('depol', 0.05, None), ('depol', 0.2, None), ('depol', 0.4, None),
            ('biasZ3', 0.2, None)]
    if names and task['decoder'] != 'MemoryBeliefPropagationDecoder':
        cfgs.append(('biasZ3', 0.2, names[0]))
    others = [d for d, codes in SIBLINGS.items() if d != task['decoder']
              and cls in allowed_classes(decoder_classes()[d])
              and d != 'MemoryBeliefPropagationDecoder'][:2] \
        if code_def is None else []
    sibs = []       # (sub-task, live decoder)
    ems = {}
    try:
        for dname in [task['decoder']] * len(cfgs) + others:
            noise, rate, ndn = cfgs[len(sibs) % len(cfgs)]
            sub = dict(task, decoder=dname, noise=noise, rate=rate,
                       noise_def=[ndn, {}])
            key = (noise, ndn)
            if key not in ems:      # error models are shared as well
                rx, ry, rz = NOISES[noise]
                ems[key] = PauliErrorModel(rx, ry, rz, deformation_name=ndn)
            kw = {k: v for k, v in task['opts'].items() if k != 'code_def'}
            if dname != task['decoder']:
                kw = {}
            if dname == 'MemoryBeliefPropagationDecoder':
                kw['max_bp_iter'] = 4
            with contextlib.redirect_stdout(io.StringIO()):
                dec = decoder_classes()[dname](code, ems[key], rate, **kw)
            sibs.append((sub, dec, FreshRef(sub, out)))
    except Exception as e:
        where = panqec_frame(e)
        if where is None:
            raise
        out.violation(mech_of(task, f'siblings/construct-raises-'
                                    f'{type(e).__name__}'),
                      f'{type(e).__name__}: {e} at {where}', desc_of(task))
        return
    n = code.n
    H = gf2.pack_rows(code.stabilizer_matrix)
    m = len(H)
    kinds = ['zero', 'x-only', 'z-only', 'sparse', 'sparse', 'dense']
    for r in range(task['n_rounds']):
        s_int = random_syndrome(rng, code, H, n, str(rng.choice(kinds)))
        order = rng.permutation(len(sibs))
        if r % 4 == 3:          # one decoder called twice in a row
            order = np.concatenate([order, order[-1:]])
        for i in order:
            sub, dec, fresh = sibs[int(i)]
            s_arr = gf2.unpack(s_int, m).astype('uint8')
            try:
                got = quiet_decode(dec, s_arr)
                ref = fresh.get(s_int, m)
            except Exception as e:
                where = panqec_frame(e)
                if where is None:
                    raise
                out.violation(mech_of(sub, f'siblings/raises-'
                                           f'{type(e).__name__}'),
                              f'{type(e).__name__}: {e} at {where}',
                              dict(desc_of(sub), where=where))
                return
            out.count('sibling_decodes')
            ok = compare(dict(sub, opts=dict(sub['opts'], siblings=True)),
                         out, got, ref, f'round {r}, {len(sibs)} decoders on '
                         'one code object', s_int, m, False)
        out.case(dict(desc_of(task), kind='siblings', round=r,
                      s=s_int % (1 << 61)), nontrivial=bool(s_int) and r > 0,
                 n=len(order), sample=dict(desc_of(task), siblings=[
                     (t['decoder'], t['noise'], t['rate'], t['noise_def'][0])
                     for t, _, _ in sibs]) if r == 0 else None)


def run_task(task, out):
    {'pairs': run_pairs, 'histories': run_histories,
     'siblings': run_siblings}[task['kind']](task, out)


def finalize(run, tier, seed):
    # counters that only some decoders feed are required overall, not per cell
    pass


def classify(v):
    return None


def replay(v, out):
    w = v['witness']
    task = {k: w[k] for k in ('decoder', 'cls', 'size', 'noise', 'rate',
                              'noise_def', 'opts')}
    task.update(tier='quick', seed=v.get('seed', 0), slice=0, nslices=1,
                n_histories=30)
    if str(w.get('history', '')).startswith('prev='):
        run_pairs(task, out)
    else:
        run_histories(task, out)
