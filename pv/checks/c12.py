"""C12 — interrupted batch runs resume without losing or duplicating trials.

Level: fault enumeration.  The real BatchSimulation / DirectSimulation /
load_results / save_json / load_json run in a victim (in-process for
exceptions, a child process for deaths); trials are made individually
identifiable (pv.c12_victim.TracerErrorModel), every COMPLETED save is
snapshotted, faults are injected at

  (a) every trial boundary (hard stop and KeyboardInterrupt),
  (b) every LINE event of the simulation / checkpoint code (sys.monitoring
      failpoint raising KeyboardInterrupt),
  (c) process death inside a checkpoint write at byte-offset classes of the
      plain and gzip streams (and around os.replace if the write is atomic),
  (d) real SIGKILL at random times (thorough),

and an offline checker over the recorded files decides: the restarted run
raises nothing, every simulation has exactly the target number of trials and
equally long lists, trial ids are pairwise distinct, the last completed save
is an unchanged prefix, and no foreign record's trial is adopted.
"""
from __future__ import annotations

import json
import os
import shutil
import signal
import subprocess
import tempfile
import time

import numpy as np

from pv import c12_victim as V
from pv.common import child_env, PYTHON, panqec_frame

PROPERTY = 'C12'
LEVEL = 'fault_enumeration'
TECHNIQUE = ('runtime monitoring with fault injection: sys.monitoring LINE '
             'failpoints, trial-boundary stops, torn-write process deaths and '
             'SIGKILL; offline history checker over recorded result files '
             'with uniquely identifiable trials (exactly-once / prefix / '
             'no-adoption)')
MANIFEST_TEXT = ('Every trial boundary and (thorough: every; quick: every '
                 '3rd) line-level interrupt point of a 2-simulation run, '
                 'plain and gzip output, plus process death at byte-offset '
                 'classes of the first/middle/last checkpoint write, are '
                 'injected into the real code; restarts (1-4 rounds, growing '
                 'specs, changing save frequencies, foreign records) are '
                 'checked offline with unique trial ids. Enumerates fault '
                 'points of the workloads run, not of all workloads.')
MANIFEST_NOTE = ('Process death is modelled by os._exit / SIGKILL (page cache '
                 'survives); machine crashes are outside the property. '
                 'Tracer noise + null decoder are harness components; the '
                 'simulation / checkpoint code under test is panqec\'s.')
RULE = ('case = one history (sequence of stop/restart rounds with one '
        'injected fault each, then a clean run) checked offline; distinct = '
        '(workload, fault kind, fault point, format); non-trivial = the '
        'fault actually fired before the run completed')
ASSUMPTIONS = ['a restart is a new BatchSimulation built from the same (or a '
               'grown) specification on the same output file',
               'os._exit models process death: nothing buffered in the '
               'process reaches the file afterwards']
REQUIRED_COUNTERS = ['histories_checked', 'trial_boundary_faults',
                     'line_failpoints_fired', 'torn_write_deaths',
                     'restarts_completed', 'ids_checked',
                     'distinct_line_locations_hit',
                     'near_miss_growth_histories',
                     'rounds_with_numpy_or_retyped_numbers',
                     'histories_through_run_file_with_log',
                     'growth_after_completion_histories',
                     'rounds_continuing_with_the_same_objects',
                     'rounds_with_live_results_read_at_every_update']
SHARD_TIMEOUT = {'quick': 1200, 'thorough': 5400}
BINS_PER_CPU = 4


# --------------------------------------------------------------------------
# offline checker
# --------------------------------------------------------------------------

FOREIGN_RATE = 0.987


def sim_key(inputs):
    """Identity of a simulation as the property states it: (code, noise,
    decoder, error rate) by name and parameters -- whatever else a record's
    inputs carry does not make it another simulation."""
    ident = {k: {'name': (inputs.get(k) or {}).get('name'),
                 'parameters': (inputs.get(k) or {}).get('parameters')}
             for k in ('code', 'error_model', 'decoder', 'method')}
    ident['error_rate'] = inputs.get('error_rate')
    return json.dumps(ident, sort_keys=True, default=str)


def ids_of(record, tracer):
    ee = record['results']['effective_error']
    if tracer:
        return [V.trial_id(x) for x in ee]
    return [tuple(int(b) for b in x) for x in ee]


def check_final(out, desc, mech, final, target, n_sims, last_save, foreign,
                tracer=True):
    """final / last_save: parsed file contents (list of records) or None."""
    ok = True

    def bad(tag, what, extra=None):
        nonlocal ok
        ok = False
        out.violation(f'{mech}/{tag}', what, dict(desc, **(extra or {})))

    if final is None or not isinstance(final, list):
        bad('no-results-file', 'no readable results file after the restart')
        return False
    # a planted foreign record may legitimately still sit in the file (when
    # the restarted run had nothing left to do it never rewrites the file);
    # it is not one of the specification's simulations
    final = [r for r in final
             if r['inputs'].get('error_rate') != FOREIGN_RATE]
    if len(final) != n_sims:
        bad('simulation-count', f'{len(final)} records in the file, '
            f'{n_sims} simulations in the specification')
    seen = {}
    for rec in final:
        res = rec['results']
        lens = {k: len(res[k]) for k in ('effective_error', 'success',
                                         'codespace')}
        if res['n_runs'] != target or set(lens.values()) != {target}:
            bad('trial-count',
                f"after the restart a simulation has n_runs={res['n_runs']}"
                f', list lengths {lens}, requested {target}',
                {'error_rate': rec['inputs'].get('error_rate')})
        if tracer:
            for tid in ids_of(rec, True):
                out.count('ids_checked')
                if tid in seen:
                    bad('trial-counted-twice',
                        f'trial id {tid:#x} appears twice '
                        f'(incarnation {tid >> 12}, number {tid & 0xfff})')
                    break
                seen[tid] = True
                if tid in foreign:
                    bad('foreign-trial-adopted',
                        f'trial id {tid:#x} belongs to a record with '
                        'different inputs')
                    break
    if not tracer and len(final) > 1:
        # without unique ids: two simulations sharing an identical, long
        # list of 2k-bit outcomes is adoption (probability of coincidence
        # is negligible only for lists with enough failures, so require a
        # non-constant list)
        # judged only on lists with >= 12 non-trivial outcomes: two
        # independent runs then coincide with probability < 2^-12
        lists = [json.dumps(r['results']['effective_error'])
                 for r in final
                 if sum(1 for x in r['results']['effective_error']
                        if any(x)) >= 12]
        out.count('adoption_lists_judged', len(lists))
        if len(set(lists)) < len(lists):
            bad('identical-trial-lists-in-two-simulations',
                'two simulations of the final file carry the same '
                'non-trivial list of outcomes')
    if last_save:
        fin = {sim_key(r['inputs']): r for r in final}
        for rec in last_save:
            k = sim_key(rec['inputs'])
            if k not in fin:
                continue        # e.g. the foreign record
            a = ids_of(rec, tracer)
            b = ids_of(fin[k], tracer)
            out.count('prefix_comparisons')
            if b[:len(a)] != a:
                lost = len(a) - sum(1 for x, y in zip(a, b) if x == y)
                bad('completed-save-not-a-prefix',
                    f'the last completed save held {len(a)} trials of a '
                    f'simulation; {lost} of them are not kept as a prefix '
                    f'of the final {len(b)}',
                    {'error_rate': rec['inputs'].get('error_rate')})
    return ok


class Workdir:
    def __init__(self):
        base = os.environ.get('PV_WORK') or tempfile.gettempdir()
        self.d = tempfile.mkdtemp(prefix='c12-', dir=base)

    def path(self, *a):
        return os.path.join(self.d, *a)

    def close(self):
        shutil.rmtree(self.d, ignore_errors=True)


def latest_snapshot(snap_dirs):
    """Most recent completed save over all rounds (dirs in round order)."""
    for d in reversed(snap_dirs):
        if os.path.isdir(d):
            ks = sorted((int(x) for x in os.listdir(d) if x.isdigit()),
                        reverse=True)
            if ks:
                return V.read_results(os.path.join(d, str(ks[0])))
    return None


def n_sims_of(spec):
    r = spec['ranges']
    return len(r['code']['parameters']) * len(r['error_rate']) * \
        len(r['error_model']['parameters'])


def plant_foreign(out_file, tracer_like=True):
    """Insert a record with different inputs (error rate 0.987) carrying ids
    of incarnation 63 into the file; returns the set of its ids."""
    data = V.read_results(out_file) or []
    if not data:
        return set()
    rec = json.loads(json.dumps(data[0]))
    rec['inputs']['error_rate'] = FOREIGN_RATE
    n = len(rec['results']['effective_error'])
    k2 = len(rec['results']['effective_error'][0]) if n else 18
    ids = set()
    ee = []
    for j in range(max(n, 3)):
        tid = (63 << 12) | j
        ids.add(tid)
        bits = [0] * k2
        for b in range(9):
            bits[b] = (tid >> b) & 1
            bits[k2 // 2 + b] = (tid >> (9 + b)) & 1
        ee.append(bits)
    rec['results']['effective_error'] = ee
    rec['results']['success'] = [False] * len(ee)
    rec['results']['codespace'] = [True] * len(ee)
    rec['results']['n_runs'] = len(ee)
    data.insert(0, rec)
    raw = json.dumps(data).encode()
    if out_file.endswith('.gz'):
        import gzip
        raw = gzip.compress(raw)
    with open(out_file, 'wb') as f:
        f.write(raw)
    return ids


# --------------------------------------------------------------------------
# (a) + histories, in process
# --------------------------------------------------------------------------

def run_history(out, hist, tag):
    """hist: dict(fmt, tracer, rounds=[{spec, target, sf, stop_after, kind,
    foreign}], final={spec,target,sf})."""
    wd = Workdir()
    # 'gzbare': a results file named results.gz (no .json before it), which
    # save_json and load_json both accept as gzip (round 7)
    ext = {'gz': '.json.gz', 'gzbare': '.gz'}.get(hist['fmt'], '.json')
    out_file = wd.path('results' + ext)
    desc = {'k': tag, 'fmt': hist['fmt'], 'tracer': hist['tracer'],
            'rounds': [{kk: r[kk] for kk in ('target', 'sf', 'stop_after',
                                             'kind', 'foreign', 'nsims',
                                             'types')
                        if kk in r} for r in hist['rounds']],
            'final': {kk: hist['final'][kk] for kk in ('target', 'sf',
                                                       'nsims', 'types')
                      if kk in hist['final']},
            'via_run_file': bool(hist.get('via_run_file')),
            'reuse_objects': hist.get('reuse_objects'),
            'poll': bool(hist.get('poll'))}
    mech = f"history/{hist['fmt']}"
    snap_dirs = []
    foreign = set()
    fired = 0
    keep = {'mode': hist['reuse_objects']} if hist.get('reuse_objects') \
        else None
    try:
        inc = 1
        for i, r in enumerate(hist['rounds']):
            sd = wd.path(f'snap{i}')
            snap_dirs.append(sd)
            info = V.run_round(r['spec'], out_file, r['target'], r['sf'],
                               inc, snap_dir=sd,
                               stop_after_trials=r.get('stop_after'),
                               stop_kind=r.get('kind', 'kill'),
                               spec_types=r.get('types'),
                               via_run_file=bool(hist.get('via_run_file')),
                               keep=keep, poll=bool(hist.get('poll')))
            if hist.get('poll'):
                out.count('rounds_with_live_results_read_at_every_update')
            if info.get('reused_objects'):
                out.count('rounds_continuing_with_the_same_objects')
            if keep is not None and info['status'] == 'stopped':
                keep.pop('batch', None)     # the process died: objects gone
            if r.get('types'):
                out.count('rounds_with_numpy_or_retyped_numbers')
            inc += 1
            if info['status'] in ('stopped', 'interrupt-propagated') or (
                    r.get('kind') == 'interrupt'
                    and info['status'] == 'completed'):
                fired += 1
                out.count('trial_boundary_faults')
            if info['status'] == 'raised':
                out.violation(f'{mech}/run-raised',
                              f"round {i} raised {info['exception']}",
                              dict(desc, traceback=info.get('traceback')))
                return
            if r.get('foreign'):
                foreign |= plant_foreign(out_file)
                out.count('foreign_records_planted')
        f = hist['final']
        sd = wd.path('snapF')
        last = latest_snapshot(snap_dirs)
        info = V.run_round(f['spec'], out_file, f['target'], f['sf'], inc,
                           snap_dir=sd, spec_types=f.get('types'),
                           via_run_file=bool(hist.get('via_run_file')),
                           keep=keep, poll=bool(hist.get('poll')))
        if info.get('reused_objects'):
            out.count('rounds_continuing_with_the_same_objects')
        if hist.get('via_run_file'):
            out.count('histories_through_run_file_with_log')
        if info['status'] != 'completed':
            out.violation(f'{mech}/restart-raised',
                          f"the restarted run ended with {info['status']}: "
                          f"{info.get('exception')}",
                          dict(desc, traceback=info.get('traceback')))
            return
        out.count('restarts_completed')
        final = V.read_results(out_file)
        check_final(out, desc, mech, final, f['target'], f['nsims'], last,
                    foreign, tracer=hist['tracer'])
        out.count('histories_checked')
        out.case(desc, nontrivial=fired > 0,
                 sample=desc if tag == 'history' else None)
    except Exception as e:
        where = panqec_frame(e)
        if where is None:
            raise
        out.violation(f'{mech}/harnessed-run-raised-{type(e).__name__}',
                      f'{type(e).__name__}: {e} at {where}', desc)
    finally:
        wd.close()


def boundary_histories(tier, fmt, tracer):
    """One stop at every trial boundary of a 2-simulation x T-trial run."""
    T = 5
    mk = V.tracer_spec if tracer else V.real_spec
    spec = mk([0.1, 0.2])
    hs = []
    for sf in ([1, 2] if tier == 'quick' else [1, 2, 3, 7]):
        for j in range(0, 2 * T + 1):
            for kind in ('kill', 'interrupt'):
                hs.append({'fmt': fmt, 'tracer': tracer, 'rounds': [
                    {'spec': spec, 'target': T, 'sf': sf, 'stop_after': j,
                     'kind': kind, 'nsims': 2}],
                    'final': {'spec': spec, 'target': T, 'sf': sf,
                              'nsims': 2}})
    return hs


def near_miss_histories():
    """The specification grows by a simulation whose inputs differ from a
    record already in the file only inside a nested parameter dict (an empty
    dict vs a filled one, a key present vs absent): it must start from zero,
    never adopt the other record's trials."""
    hs = []
    plain = {'tag': 0}
    axis = {'tag': 0, 'extra': {'deformation_axis': 'x'}}
    other = {'tag': 0, 'extra': {'deformation_axis': 'y'}}
    pm = {'r_x': 0.2, 'r_y': 0.2, 'r_z': 0.6, 'deformation_name': 'XZZX'}
    pm_x = dict(pm, deformation_kwargs={'deformation_axis': 'x'})
    pm_y = dict(pm, deformation_kwargs={'deformation_axis': 'y'})
    for fmt in ('json', 'gz'):
        for first, then in (([plain], [plain, axis]), ([axis], [axis, plain]),
                            ([axis], [axis, other]),
                            ([plain, axis], [plain, axis, other])):
            for stop in (3, 10 ** 6):
                s1 = V.tracer_spec([0.1], models=first)
                s2 = V.tracer_spec([0.1], models=then)
                hs.append({'fmt': fmt, 'tracer': True, 'rounds': [
                    {'spec': s1, 'target': 4, 'sf': 1, 'stop_after': stop,
                     'kind': 'kill', 'nsims': len(first)}],
                    'final': {'spec': s2, 'target': 5, 'sf': 2,
                              'nsims': len(then)}})
        for first, then in (([pm], [pm, pm_x]), ([pm_x], [pm_x, pm]),
                            ([pm_x], [pm_x, pm_y])):
            s1 = V.real_spec([0.4], models=first)
            s2 = V.real_spec([0.4], models=then)
            hs.append({'fmt': fmt, 'tracer': False, 'real_adoption': True,
                       'rounds': [
                {'spec': s1, 'target': 60, 'sf': 7, 'stop_after': 10 ** 6,
                 'kind': 'kill', 'nsims': len(first)}],
                'final': {'spec': s2, 'target': 60, 'sf': 7,
                          'nsims': len(then)}})
    return hs


def growth_after_completion_histories():
    """A run reaches its target; then the specification grows (a size, a
    rate or a noise model is appended) and is run again on the same files,
    with the same or a larger target -- through BatchSimulation directly and
    through run_file with its progress log."""
    hs = []
    for fmt in ('json', 'gz'):
        for via in (False, True):
            for tracer in (True, False):
                mk = V.tracer_spec if tracer else V.real_spec
                sz = [(2, 2, 2)] if tracer else [(3, 3)]
                sz2 = sz + ([(2, 2, 3)] if tracer else [(3, 4)])
                grown = [(mk([0.1, 0.2], sizes=tuple(sz)), 2,
                          mk([0.1, 0.2, 0.3], sizes=tuple(sz)), 3),
                         (mk([0.1], sizes=tuple(sz)), 1,
                          mk([0.1], sizes=tuple(sz2)), 2)]
                for s1, n1, s2, n2 in grown:
                    for t1, t2 in ((4, 4), (3, 5)):
                        hs.append({'fmt': fmt, 'tracer': tracer,
                                   'via_run_file': via, 'rounds': [
                            {'spec': s1, 'target': t1, 'sf': 1,
                             'stop_after': 10 ** 6, 'kind': 'kill',
                             'nsims': n1}],
                            'final': {'spec': s2, 'target': t2, 'sf': 1,
                                      'nsims': n2}})
    return hs


def random_histories(rng, n, tier):
    hs = []
    for _ in range(n):
        fmt = str(rng.choice(['json', 'gz']))
        tracer = bool(rng.random() < 0.8)
        mk = V.tracer_spec if tracer else V.real_spec
        rates = [0.1, 0.2]
        sizes = [(2, 2, 2)] if tracer else [(3, 3)]
        rounds = []
        target = int(rng.integers(1, 6))
        nr = int(rng.integers(1, 5))
        # how the numbers of the specification are typed in each run
        g = rng.random()
        tmode = [None] * (nr + 1)
        models = None
        if g < 0.25:
            tmode = ['numpy'] * (nr + 1)
        elif g < 0.4:
            tmode = [str(x) if x != 'None' else None for x in
                     rng.choice(['numpy', 'None'], size=nr + 1)]
        elif g < 0.5 and not tracer:
            models = [{'r_x': 0, 'r_y': 0, 'r_z': 1}]
            tmode = [str(x) for x in rng.choice(['int', 'float'],
                                                size=nr + 1)]
        if models:
            _mk = mk
            mk = lambda r, sizes, _mk=_mk, models=models: _mk(  # noqa
                r, sizes=sizes, models=[dict(m) for m in models])
        for i in range(nr):
            spec = mk(list(rates), sizes=tuple(sizes))
            ns = len(rates) * len(sizes)
            sf = int(rng.choice([1, 2, 3, 7]))
            stop = int(rng.integers(0, ns * target + 1))
            rounds.append({'spec': spec, 'target': target, 'sf': sf,
                           'stop_after': stop,
                           'kind': str(rng.choice(['kill', 'interrupt'])),
                           'foreign': bool(tracer and rng.random() < 0.25),
                           'nsims': ns, 'types': tmode[i]})
            target += int(rng.integers(0, 4))        # non-decreasing
            g = rng.random()
            if g < 0.25:
                rates = rates + [round(0.3 + 0.05 * len(rates), 3)]
            elif g < 0.4:
                sizes = sizes + ([(2, 2, 3)] if tracer and (2, 2, 3)
                                 not in sizes else
                                 [(3, 4)] if not tracer and (3, 4)
                                 not in sizes else [])
        spec = mk(list(rates), sizes=tuple(sizes))
        via = bool(all(t is None for t in tmode) and rng.random() < 0.35)
        reuse = None
        if not via and all(t is None for t in tmode) and rng.random() < 0.4:
            reuse = str(rng.choice(['batch', 'sims']))
            for r in rounds:
                r['kind'] = 'interrupt'     # a pause, not a dead process
        hs.append({'fmt': fmt, 'tracer': tracer, 'rounds': rounds,
                   'reuse_objects': reuse,
                   'poll': bool(not via and rng.random() < 0.35),
                   'via_run_file': via,
                   'final': {'spec': spec, 'target': target,
                             'sf': int(rng.choice([1, 2, 3, 7])),
                             'nsims': len(rates) * len(sizes),
                             'types': tmode[nr]}})
    return hs


# --------------------------------------------------------------------------
# (b) line failpoints, in process
# --------------------------------------------------------------------------

def run_line_failpoints(task, out):
    fmt, sf, T = task['fmt'], task['sf'], 5
    ext = '.json.gz' if fmt == 'gz' else '.json'
    spec = V.tracer_spec([0.1, 0.2])
    mech = f'line-failpoint/{fmt}'
    # count events of a clean run
    wd = Workdir()
    try:
        info = V.run_round(spec, wd.path('r' + ext), T, sf, 1,
                           snap_dir=wd.path('s'), line_failpoint=-1)
        K = info.get('line_events', 0)
    finally:
        wd.close()
    if not K:
        out.inconclusive_case('no line events observed in a clean run')
        return
    out.count('line_events_in_clean_run', K)
    locs = set()
    ks = list(range(1 + task['offset'], K + 1, task['stride']))
    ks = ks[task['chunk']::task['nchunks']]
    for k in ks:
        wd = Workdir()
        out_file = wd.path('results' + ext)
        desc = {'k': 'line-failpoint', 'fmt': fmt, 'sf': sf, 'event': k}
        try:
            info = V.run_round(spec, out_file, T, sf, 1,
                               snap_dir=wd.path('s0'), line_failpoint=k)
            if info.get('fired_at') is None:
                continue
            out.count('line_failpoints_fired')
            loc = tuple(info['fired_at'])
            locs.add(loc)
            desc['fired_at'] = list(loc)
            desc['round1_status'] = info['status']
            if info['status'] == 'raised':
                # an exception other than the injected one escaped
                out.violation(f'{mech}/run-raised-after-interrupt',
                              f"interrupt at {loc}: {info['exception']}",
                              dict(desc, traceback=info.get('traceback')))
                continue
            last = latest_snapshot([wd.path('s0')])
            info2 = V.run_round(spec, out_file, T, sf, 2,
                                snap_dir=wd.path('s1'))
            if info2['status'] != 'completed':
                out.violation(
                    f'{mech}/restart-raised',
                    f"interrupt at {loc[0]}:{loc[1]}:{loc[2]}; the restarted "
                    f"run ended with {info2['status']}: "
                    f"{info2.get('exception')}",
                    dict(desc, traceback=info2.get('traceback')))
                continue
            out.count('restarts_completed')
            final = V.read_results(out_file)
            check_final(out, desc, f'{mech}/{loc[0]}:{loc[1]}', final, T, 2,
                        last, set())
            out.count('histories_checked')
            out.case(desc, True, sample=desc if k == ks[0] else None)
        finally:
            wd.close()
    out.extra.setdefault('line_locations', [])
    out.extra['line_locations'] += sorted(f'{a}:{b}:{c}' for a, b, c in locs)


# --------------------------------------------------------------------------
# (c) torn writes, (d) SIGKILL: child processes
# --------------------------------------------------------------------------

def spawn_round(job, timeout=120, kill_after=None):
    wdir = os.path.dirname(job['info_file'])
    jf = os.path.join(wdir, f"job{job['incarnation']}.json")
    with open(jf, 'w') as f:
        json.dump(job, f)
    p = subprocess.Popen([PYTHON, '-m', 'pv.c12_victim', jf],
                         env=child_env(), stdout=subprocess.PIPE,
                         stderr=subprocess.PIPE, text=True)
    if kill_after is not None:
        time.sleep(kill_after)
        if p.poll() is None:
            p.send_signal(signal.SIGKILL)
    try:
        so, se = p.communicate(timeout=timeout)
    except subprocess.TimeoutExpired:
        p.kill()
        so, se = p.communicate()
        return None, se
    return p.returncode, se


PLAIN_CLASSES = ['zero', 'one', 'tenth', 'record-boundary', 'half', 'ninety',
                 'all-but-last', 'complete-unclosed']
GZ_CLASSES = ['zero', 'gz-header', 'gz-after-header', 'half',
              'gz-before-trailer', 'gz-in-trailer', 'all-but-last',
              'complete-unclosed']
ATOMIC_CLASSES = ['before-replace', 'after-replace']


def run_torn(task, out):
    fmt, klass, save_index = task['fmt'], task['klass'], task['save_index']
    target_kind = task.get('target', 'final')
    T, sf = 6, 1          # 7 checkpoint writes: indices 0..6
    ext = '.json.gz' if fmt == 'gz' else '.json'
    spec = V.tracer_spec([0.1, 0.2])
    wd = Workdir()
    out_file = wd.path('results' + ext)
    desc = {'k': 'torn-write', 'fmt': fmt, 'klass': klass,
            'save_index': save_index, 'write_target': target_kind}
    mech = f'torn-write/{fmt}'
    try:
        job = {'spec': spec, 'out_file': out_file, 'target': T,
               'save_frequency': sf, 'incarnation': 1,
               'snap_dir': wd.path('s0'), 'info_file': wd.path('info1.json'),
               'torn': {'save_index': save_index, 'klass': klass,
                        'report': wd.path('died'), 'target': target_kind}}
        rc, se = spawn_round(job)
        died = os.path.exists(wd.path('died'))
        plan = None
        if os.path.exists(wd.path('died.plan')):
            with open(wd.path('died.plan')) as f:
                plan = json.load(f)
        desc['plan'] = plan
        if rc is None:
            out.inconclusive_case(f'torn-write child timed out: {desc}')
            return
        if not died:
            # the armed writer was never reached (e.g. the implementation
            # does not write a sibling file): not a fault, nothing to judge
            out.count('torn_not_reached')
            if rc != 0:
                out.inconclusive_case(f'victim exit {rc} without fault: '
                                      f'{se[-300:]}')
            return
        out.count('torn_write_deaths')
        on_disk = None
        try:
            on_disk = V.read_results(out_file)
            state = 'parsable' if on_disk is not None else 'absent'
        except Exception as e:
            state = f'unparsable ({type(e).__name__})'
        desc['file_after_death'] = state
        last = latest_snapshot([wd.path('s0')])
        info2 = V.run_round(spec, out_file, T, sf, 2, snap_dir=wd.path('s1'))
        tag_cls = 'atomic-rename' if klass in ATOMIC_CLASSES else \
            ('sibling-file' if target_kind != 'final' else 'in-place')
        if info2['status'] != 'completed':
            out.violation(
                f'{mech}/{tag_cls}/restart-raised',
                f'process died in checkpoint write #{save_index} at offset '
                f'class {klass} (file {state}); the restarted run ended '
                f"with {info2['status']}: {info2.get('exception')}",
                dict(desc, traceback=info2.get('traceback')))
            return
        out.count('restarts_completed')
        final = V.read_results(out_file)
        check_final(out, desc, f'{mech}/{tag_cls}', final, T, 2, last, set())
        out.count('histories_checked')
        out.case(desc, True, sample=desc)
    finally:
        wd.close()


def run_sigkill(task, out):
    rng = np.random.default_rng([task['seed'], 1212, task['i']])
    fmt = str(rng.choice(['json', 'gz']))
    ext = '.json.gz' if fmt == 'gz' else '.json'
    T = 400
    spec = V.tracer_spec([0.1, 0.2])
    wd = Workdir()
    out_file = wd.path('results' + ext)
    delay = float(rng.uniform(1.2, 3.5))
    desc = {'k': 'sigkill', 'fmt': fmt, 'delay': round(delay, 3)}
    try:
        job = {'spec': spec, 'out_file': out_file, 'target': T,
               'save_frequency': 1, 'incarnation': 1,
               'snap_dir': wd.path('s0'), 'info_file': wd.path('info1.json')}
        rc, se = spawn_round(job, kill_after=delay)
        if rc != -signal.SIGKILL:
            out.count('sigkill_too_late')
            return
        out.count('sigkills_delivered')
        last = latest_snapshot([wd.path('s0')])
        nlast = len(last[0]['results']['effective_error']) if last else 0
        desc['trials_in_last_completed_save'] = nlast
        info2 = V.run_round(spec, out_file, max(T, nlast), 50, 2,
                            snap_dir=wd.path('s1'))
        if info2['status'] != 'completed':
            out.violation(f'sigkill/{fmt}/restart-raised',
                          f"killed after {delay:.2f}s; restart ended with "
                          f"{info2['status']}: {info2.get('exception')}",
                          desc)
            return
        out.count('restarts_completed')
        final = V.read_results(out_file)
        check_final(out, desc, f'sigkill/{fmt}', final, max(T, nlast), 2,
                    last, set())
        out.count('histories_checked')
        out.case(desc, nlast > 0, sample=desc)
    finally:
        wd.close()


# --------------------------------------------------------------------------

def plan(tier, seed):
    tasks = []
    for fmt in ('json', 'gz'):
        for tracer in (True, False):
            tasks.append({'kind': 'boundary', 'fmt': fmt, 'tracer': tracer,
                          'tier': tier, 'cost': 3000})
    tasks.append({'kind': 'boundary', 'fmt': 'gzbare', 'tracer': True,
                  'tier': tier, 'cost': 3000})
    tasks.append({'kind': 'nearmiss', 'cost': 4000})
    nh = 40 if tier == 'quick' else 1200
    per = 10 if tier == 'quick' else 50
    for i in range(nh // per):
        tasks.append({'kind': 'random', 'i': i, 'n': per, 'seed': seed,
                      'tier': tier, 'cost': per * 150})
    stride = 3 if tier == 'quick' else 1
    nch = 6 if tier == 'quick' else 12
    for fmt in ('json', 'gz'):
        for sf in ([1] if tier == 'quick' else [1, 2]):
            for c in range(nch):
                tasks.append({'kind': 'line', 'fmt': fmt, 'sf': sf,
                              'stride': stride, 'offset': seed % stride,
                              'chunk': c, 'nchunks': nch,
                              'cost': 1000 / stride / nch * 60})
    for fmt, classes in (('json', PLAIN_CLASSES), ('gz', GZ_CLASSES)):
        for save_index in ([0, 3, 6] if tier == 'quick'
                           else [0, 1, 2, 3, 4, 5, 6]):
            for klass in classes:
                for target in ('final', 'sibling'):
                    tasks.append({'kind': 'torn', 'fmt': fmt, 'klass': klass,
                                  'save_index': save_index, 'target': target,
                                  'cost': 1500})
            for klass in ATOMIC_CLASSES:
                tasks.append({'kind': 'torn', 'fmt': fmt, 'klass': klass,
                              'save_index': save_index, 'target': 'final',
                              'cost': 1500})
    if tier == 'thorough':
        for i in range(120):
            tasks.append({'kind': 'sigkill', 'i': i, 'seed': seed,
                          'cost': 5000})
    return tasks


def run_task(task, out):
    k = task['kind']
    if k == 'boundary':
        for h in boundary_histories(task['tier'], task['fmt'],
                                    task['tracer']):
            run_history(out, h, 'boundary')
    elif k == 'nearmiss':
        for h in near_miss_histories():
            run_history(out, h, 'near-miss-growth')
        out.count('near_miss_growth_histories')
        for h in growth_after_completion_histories():
            run_history(out, h, 'growth-after-completion')
            out.count('growth_after_completion_histories')
    elif k == 'random':
        rng = np.random.default_rng([task['seed'], 1213, task['i']])
        for h in random_histories(rng, task['n'], task['tier']):
            run_history(out, h, 'history')
    elif k == 'line':
        run_line_failpoints(task, out)
    elif k == 'torn':
        run_torn(task, out)
    elif k == 'sigkill':
        run_sigkill(task, out)


def finalize(run, tier, seed):
    locs = sorted(set(run.extra.get('line_locations', [])))
    run.extra['line_locations'] = locs[:60]
    run.counters['distinct_line_locations_hit'] = len(locs)
    if run.counters.get('torn_write_deaths', 0) == 0:
        run.notes.append('no torn-write death reached its write')


def classify(v):
    return None


def replay(v, out):
    w = v['witness']
    k = w.get('k')
    if k == 'torn-write':
        run_torn({'fmt': w['fmt'], 'klass': w['klass'],
                  'save_index': w['save_index'],
                  'target': w.get('write_target', 'final')}, out)
    elif k == 'line-failpoint':
        run_line_failpoints({'fmt': w['fmt'], 'sf': w['sf'], 'stride': 10 ** 9,
                             'offset': w['event'] - 1, 'chunk': 0,
                             'nchunks': 1}, out)
    else:
        print('replay: re-run ./check C12 (histories are generated from '
              'VERIF_SEED)')
