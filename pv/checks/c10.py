"""C10 — sweep decoders track the true residual syndrome.

Invariant hooks (installed from outside, class level):
  * geometry: flip_edge(edge, zeros) for EVERY qubit of every lattice; the
    toggled set must be exactly the face rows of H that anticommute with Z on
    that edge (own arithmetic on the parity-check matrix);
  * trajectory: after EVERY sweep_move of every decode, with the true error in
    hand: tracked signs on face rows == face syndrome of (error + correction
    so far); correction letters are Z only; an edge flipped an even number
    of times is absent from the correction dict, odd -> present;
  * at return: correction is Z-only and equals the dict; if the automaton's
    last state was all-zero the true face syndrome of error+correction is 0.
"""
from __future__ import annotations

import numpy as np

from pv import gf2
from pv import families as fam
from pv.common import panqec_frame

PROPERTY = 'C10'
LEVEL = 'exploration'
TECHNIQUE = ('runtime monitoring: invariant asserted at a hook after every '
             'sweep_move / flip_edge (class-level wrappers), comparing the '
             'automaton\'s tracked state with the true residual syndrome '
             'computed by own GF(2) arithmetic from the error in hand; '
             'returned corrections and the caller\'s syndrome arrays '
             'compared with their snapshots after later decodes')
MANIFEST_TEXT = ('Geometry is checked on every edge of every lattice size '
                 'below the bound for both sweep decoders; the tracked-state '
                 'invariant is evaluated after each automaton step of decodes '
                 'over exhaustive weight<=2 Z errors on the smallest lattices '
                 'and random Z errors at four rates with several tie-break '
                 'seeds, all 8 sweep directions of the rotated decoder '
                 'observed.  Per-step, so independent of convergence.')
MANIFEST_NOTE = ('Trusted: pv/gf2.py. RotatedSweepDecoder3D runs with '
                 'max_rounds=3 in the random workloads (the invariant is per '
                 'step; rounds only repeat it).  Known finding: rotated '
                 'decoder geometry on RotatedToric3DCode (periodic seam).')
RULE = ('case = one decode (trajectory) or one lattice (geometry: all its '
        'edges); distinct = (decoder, lattice, error, seed); non-trivial = '
        'the decode performed at least one sweep step that flipped an edge')
ASSUMPTIONS = ['supported size family = pv/families.py']
REQUIRED_COUNTERS = ['retained_corrections_rechecked',
                     'syndromes_in_another_dtype',
                     'syndrome_arrays_decoded_twice',
                     'edges_geometry_checked', 'sweep_steps_observed',
                     'edge_flips_observed', 'decodes_observed',
                     'clean_stops_checked', 'tie_breaks_observed',
                     'edges_flipped_twice_observed', 'all_8_directions',
                     'interleaved_lattice_sequences']
SHARD_TIMEOUT = {'quick': 900, 'thorough': 5400}

HOME = {
    'SweepDecoder3D': ['Toric3DCode', 'Planar3DCode'],
    'RotatedSweepDecoder3D': ['RotatedPlanar3DCode', 'RotatedToric3DCode'],
}


def decoder_class(name):
    import panqec.decoders as d
    return getattr(d, name)


def face_rows(code):
    """(row index, packed X-part of the row) for every X-type (face) row."""
    n = code.n
    H = gf2.pack_rows(code.stabilizer_matrix)
    mask = (1 << n) - 1
    return [(i, h & mask) for i, h in enumerate(H) if h & mask], H


# ---------------------------------------------------------------- geometry

def seam_classify(code, edge, missing, extra):
    """F-C10b classifier input, computed at detection time: are all wrongly
    handled faces reached only through the periodic seam (|dx| or |dy| > 1
    from the edge) ?"""
    if extra:
        return False
    ex, ey = edge[0], edge[1]
    for r in missing:
        loc = code.stabilizer_coordinates[r]
        if abs(loc[0] - ex) <= 1 and abs(loc[1] - ey) <= 1:
            return False
    return True


def check_geometry(out, dname, cls, size):
    from panqec.error_models import PauliErrorModel
    code = fam.build(cls, size)
    dec = decoder_class(dname)(code, PauliErrorModel(1 / 3, 1 / 3, 1 / 3),
                               0.1)
    n = code.n
    frows, H = face_rows(code)
    m = len(H)
    desc = {'decoder': dname, 'cls': cls, 'size': list(size), 'k': 'geometry'}
    rect = 'rect' if len(set(size)) > 1 else 'cubic'
    bad_edges = {}
    for q, loc in enumerate(code.qubit_coordinates):
        signs = np.zeros(m, dtype=int)
        try:
            dec.flip_edge(loc, signs)
        except Exception as e:
            where = panqec_frame(e)
            if where is None:
                raise
            out.violation(f'{dname}/{cls}/{rect}/flip_edge-raises-'
                          f'{type(e).__name__}',
                          f'flip_edge({loc}) raised {type(e).__name__}: {e}',
                          dict(desc, edge=loc))
            continue
        out.count('edges_geometry_checked')
        got = set(np.nonzero(signs)[0].tolist())
        if np.any((signs != 0) & (signs != 1)):
            out.violation(f'{dname}/{cls}/{rect}/flip_edge-non-binary',
                          'flip_edge left values outside {0,1}',
                          dict(desc, edge=loc))
        ref = {i for i, hx in frows if (hx >> q) & 1}
        if got != ref:
            missing, extra = sorted(ref - got), sorted(got - ref)
            seam = cls == 'RotatedToric3DCode' and \
                seam_classify(code, loc, missing, extra)
            tag = 'flip_edge-geometry' + ('/seam-faces-missing' if seam
                                          else '')
            bad_edges[loc] = seam
            out.violation(
                f'{dname}/{cls}/{rect}/{tag}',
                f'flip_edge({loc}) [axis {code.qubit_axis(loc)}] toggles '
                f'{sorted(code.stabilizer_coordinates[i] for i in got)} but Z '
                f'on that edge anticommutes with faces '
                f'{sorted(code.stabilizer_coordinates[i] for i in ref)}',
                dict(desc, edge=loc, missing=missing, extra=extra))
    out.case(desc, True, n=n, distinct=n,
             sample=dict(desc, edges=n, mismatching=len(bad_edges)))
    return bad_edges


# -------------------------------------------------------------- trajectory

class StepMonitor:
    def __init__(self, out):
        self.out = out
        self.active = False

    def begin(self, code, error_int, desc, mech, bad_edges):
        self.code = code
        self.n = code.n
        self.error = error_int
        self.desc, self.mech = desc, mech
        self.frows, self.H = face_rows(code)
        self.qindex = {loc: i for i, loc in enumerate(code.qubit_coordinates)}
        self.parity = {}
        self.step = 0
        self.flips_this_step = []
        self.last_signs = None
        self.failed = False
        self.bad_edges = bad_edges
        self.touched_bad_seam = False
        self.touched_bad_other = False
        self.any_flip = False
        self.active = True

    def corr_int(self, correction):
        v = 0
        for loc, p in correction.items():
            i = self.qindex[loc]
            if p in ('X', 'Y'):
                v |= 1 << i
            if p in ('Z', 'Y'):
                v |= 1 << (self.n + i)
        return v

    def true_faces(self, resid):
        # full symplectic product of each face row with the residual
        rs = gf2.swap_halves(resid, self.n)
        return {i: gf2.popcount(self.H[i] & rs) & 1 for i, hx in self.frows}

    def on_flip(self, loc):
        loc = tuple(int(x) for x in loc)
        self.flips_this_step.append(loc)
        self.parity[loc] = self.parity.get(loc, 0) ^ 1
        self.out.count('edge_flips_observed')
        if self.parity[loc] == 0:
            self.out.count('edges_flipped_twice_observed')
        if loc in self.bad_edges:
            if self.bad_edges[loc]:
                self.touched_bad_seam = True
            else:
                self.touched_bad_other = True
        self.any_flip = True

    def suffix(self):
        if self.touched_bad_seam and not self.touched_bad_other:
            return '/after-flipping-seam-edge'
        return ''

    def after_step(self, new_signs, correction, direction):
        out = self.out
        self.step += 1
        out.count('sweep_steps_observed')
        if direction is not None:
            out.count('dir_' + '_'.join(str(x) for x in direction))
        self.last_signs = np.array(new_signs)
        if self.failed:
            self.flips_this_step = []
            return
        w = dict(self.desc, step=self.step,
                 flips=self.flips_this_step[:6])
        letters = set(correction.values())
        if letters - {'Z'}:
            self.failed = True
            out.violation(f'{self.mech}/correction-not-Z-only' + self.suffix(),
                          f'correction holds letters {sorted(letters)}', w)
        resid = self.error ^ self.corr_int(correction)
        true = self.true_faces(resid)
        tracked = {i: int(new_signs[i]) for i in true}
        if tracked != true:
            self.failed = True
            diff = [i for i in true if tracked[i] != true[i]]
            out.violation(
                f'{self.mech}/tracked-state-differs-from-true-residual'
                + self.suffix(),
                f'after sweep step {self.step}: {len(diff)} face(s) where the '
                f'tracked excitation != face syndrome of error+correction '
                f'(e.g. face {self.code.stabilizer_coordinates[diff[0]]})',
                dict(w, faces=[self.code.stabilizer_coordinates[i]
                               for i in diff[:6]]))
        present = {loc for loc in correction}
        odd = {loc for loc, p in self.parity.items() if p}
        if present != odd and not self.failed:
            self.failed = True
            tw = sorted(present - odd)[:3]
            out.violation(
                f'{self.mech}/edge-flipped-twice-still-in-correction'
                + self.suffix(),
                f'after step {self.step}: edges flipped an even number of '
                f'times are still in the correction: {tw}; odd-flipped '
                f'missing: {sorted(odd - present)[:3]}', w)
        self.flips_this_step = []


MON = None


def install(dname):
    """Class-level wrappers around sweep_move / flip_edge /
    get_default_direction of the real decoder class."""
    cls = decoder_class(dname)
    if getattr(cls, '_pv_wrapped', False):
        return
    orig_move, orig_flip = cls.sweep_move, cls.flip_edge
    orig_dir = cls.get_default_direction

    def sweep_move(self, signs, correction, *a):
        new_signs = orig_move(self, signs, correction, *a)
        if MON is not None and MON.active:
            MON.after_step(new_signs, correction, a[0] if a else None)
        return new_signs

    def flip_edge(self, location, signs):
        if MON is not None and MON.active:
            MON.on_flip(location)
        return orig_flip(self, location, signs)

    def get_default_direction(self):
        if MON is not None and MON.active:
            MON.out.count('tie_breaks_observed')
        return orig_dir(self)

    cls.sweep_move = sweep_move
    cls.flip_edge = flip_edge
    cls.get_default_direction = get_default_direction
    cls._pv_wrapped = True


def observe_decode(out, dname, code, dec, error_int, desc, mech, bad_edges,
                   syndrome=None):
    global MON
    n = code.n
    H = gf2.pack_rows(code.stabilizer_matrix)
    m = len(H)
    s = gf2.unpack(gf2.syndrome_int(H, error_int, n), m).astype('uint8') \
        if syndrome is None else syndrome
    s_before = s.tobytes()
    MON.begin(code, error_int, desc, mech, bad_edges)
    try:
        c_obj = dec.decode(s)
        c = np.asarray(c_obj)
    except Exception as e:
        MON.active = False
        where = panqec_frame(e)
        if where is None:
            raise
        out.violation(f'{mech}/decode-raises-{type(e).__name__}',
                      f'{type(e).__name__}: {e} at {where}', desc)
        return
    MON.active = False
    out.count('decodes_observed')
    if s.tobytes() != s_before:
        out.violation(f'{mech}/decode-modifies-the-callers-syndrome',
                      'the syndrome array handed to decode() reads '
                      'differently after the call', desc)
        s[:] = np.frombuffer(s_before, dtype=s.dtype)
    if len(RETAINED) < 400:
        # callers collect corrections over a batch: what was returned must
        # still be what it was when later decodes have run (checked at the
        # end of the batch)
        RETAINED.append((c_obj, np.array(c, copy=True), desc, mech))
    if c.shape != (2 * n,) or np.any(c[:n]):
        out.violation(f'{mech}/returned-correction-not-Z-only',
                      'decode returned a correction with an X part', desc)
        return
    c_int = gf2.pack(c)
    if not MON.failed:
        odd = {loc for loc, p in MON.parity.items() if p}
        ref = 0
        for loc in odd:
            ref |= 1 << (n + MON.qindex[loc])
        if c_int != ref:
            out.violation(f'{mech}/returned-correction-differs-from-flips'
                          + MON.suffix(),
                          'decode() output is not the set of edges flipped '
                          'an odd number of times', desc)
        if MON.last_signs is None or not np.any(MON.last_signs):
            out.count('clean_stops_checked')
            true = MON.true_faces(error_int ^ c_int)
            if any(true.values()):
                out.violation(f'{mech}/clean-stop-with-residual-syndrome'
                              + MON.suffix(),
                              'automaton stopped with no tracked excitation '
                              'but error+correction has a face syndrome',
                              desc)
    out.case(desc, nontrivial=MON.any_flip)
    if MON.any_flip and len(out.samples) < 4:
        out.sample(dict(desc, steps=MON.step,
                        flips=sum(1 for _ in MON.parity)))


RETAINED = []


def check_retained(out):
    for c_obj, snap, desc, mech in RETAINED:
        out.count('retained_corrections_rechecked')
        now = np.asarray(c_obj)
        if now.shape != snap.shape or not np.array_equal(now, snap):
            out.violation(f'{mech}/returned-correction-changed-by-later-'
                          'decode', 'a correction returned earlier by the '
                          'same decoder no longer holds the value it was '
                          'returned with', desc)
            break
    del RETAINED[:]


def z_error(n, qubits):
    e = 0
    for q in qubits:
        e |= 1 << (n + int(q))
    return e


def run_traj(task, out):
    global MON
    from panqec.error_models import PauliErrorModel
    import itertools
    dname, cls, size = task['decoder'], task['cls'], tuple(task['size'])
    install(dname)
    MON = StepMonitor(out)
    code = fam.build(cls, size)
    n = code.n
    em = PauliErrorModel(1 / 3, 1 / 3, 1 / 3)
    rect = 'rect' if len(set(size)) > 1 else 'cubic'
    mech = f'{dname}/{cls}/{rect}'
    if cls == 'RotatedToric3DCode' and not code.is_css:
        # L_x or L_y odd: the defect-line faces carry Z parts
        mech += '/odd-size-non-css'
    bad_edges = task.get('_bad_edges')
    if bad_edges is None:
        # geometry first (also tells which edges are wrong, for tagging)
        MON.active = False
        bad_edges = check_geometry(out, dname, cls, size) \
            if task.get('geometry', True) else {}
    rng = np.random.default_rng([task['seed'], 1010, len(cls), sum(size),
                                 task.get('chunk', 0)])
    kw = {}
    if dname == 'RotatedSweepDecoder3D':
        kw['max_rounds'] = task.get('max_rounds', 3)
    else:
        kw['max_sweep_factor'] = task.get('max_sweep_factor', 4)
    if task['mode'] == 'exhaustive':
        errs = [z_error(n, [q]) for q in range(n)]
        pairs = list(itertools.combinations(range(n), 2))
        pairs = pairs[task['chunk']::task['nchunks']]
        errs = (errs if task['chunk'] == 0 else []) + \
            [z_error(n, p) for p in pairs]
        seeds = [0]
    else:
        errs = []
        for p in (0.02, 0.05, 0.1, 0.2):
            for _ in range(task['nrand']):
                errs.append(z_error(n, np.nonzero(rng.random(n) < p)[0]))
        # a few dense / mixed errors (X part is invisible to faces)
        for _ in range(max(1, task['nrand'] // 4)):
            e = z_error(n, np.nonzero(rng.random(n) < 0.35)[0])
            e |= gf2.pack((rng.random(n) < 0.1).astype('uint8'))
            errs.append(e)
        seeds = list(range(task.get('nseeds', 2)))
    # one measured syndrome array per error, handed to every decoder (and
    # for every third error twice to the same one)
    Hs = gf2.pack_rows(code.stabilizer_matrix)
    sdt = ['uint8', 'bool', 'int64', 'uint8', 'float64', 'int32']
    measured = {e: gf2.unpack(gf2.syndrome_int(Hs, e, n), len(Hs))
                .astype(sdt[k % len(sdt)]) for k, e in enumerate(errs)}
    out.count('syndromes_in_another_dtype',
              sum(1 for v in measured.values() if v.dtype != np.uint8))
    for sd in seeds:
        dec = decoder_class(dname)(code, em, 0.1, seed=sd, **kw)
        for ei, e in enumerate(errs):
            if ei % 3 == 0:
                d0 = {'decoder': dname, 'cls': cls, 'size': list(size),
                      'seed': sd, 'mode': task['mode'], 'first_of_two': True,
                      'error_z_qubits': [i for i in range(n)
                                         if (e >> (n + i)) & 1][:40],
                      'error_x_weight': gf2.popcount(e & ((1 << n) - 1))}
                observe_decode(out, dname, code, dec, e, d0, mech, bad_edges,
                               syndrome=measured[e])
                out.count('syndrome_arrays_decoded_twice')
            desc = {'decoder': dname, 'cls': cls, 'size': list(size),
                    'seed': sd, 'mode': task['mode'],
                    'error_z_qubits': [i for i in range(n)
                                       if (e >> (n + i)) & 1][:40],
                    'error_x_weight': gf2.popcount(e & ((1 << n) - 1))}
            observe_decode(out, dname, code, dec, e, desc, mech, bad_edges,
                           syndrome=measured[e])
        check_retained(out)
    MON = None


def run_geom(task, out):
    check_geometry(out, task['decoder'], task['cls'], tuple(task['size']))


def plan(tier, seed):
    tasks = []
    geom_bound = 4 if tier == 'quick' else 5
    for dname, classes in HOME.items():
        for cls in classes:
            sizes = [s for s in fam.sizes_upto(cls, geom_bound, minimum=1)
                     if fam.n_estimate(cls, s) <= 420]
            if tier == 'thorough':
                sizes += [(5, 5, 5), (2, 5, 6), (6, 3, 4), (6, 6, 2)]
                sizes = [s for s in sizes if fam.SUPPORTED[cls](*s)]
            for s in sizes:
                tasks.append({'kind': 'geom', 'decoder': dname, 'cls': cls,
                              'size': list(s),
                              'cost': fam.n_estimate(cls, s) * 0.6 + 30})
    # the two home lattices of one decoder, same size, in ONE process and in
    # both orders (anything shared between decoder instances shows here)
    for dname, classes in HOME.items():
        seq_sizes = [(2, 2, 2), (3, 3, 3), (2, 3, 4)] if tier == 'quick' \
            else [(2, 2, 2), (3, 3, 3), (2, 3, 4), (4, 2, 2), (4, 4, 2),
                  (2, 4, 3)]
        for s in seq_sizes:
            if not all(fam.SUPPORTED[c](*s) for c in classes):
                continue
            for order in ([0, 1, 0], [1, 0, 1]):
                tasks.append({'kind': 'geomseq', 'decoder': dname,
                              'seq': [[classes[i], list(s)] for i in order],
                              'cost': 3 * fam.n_estimate(classes[0], s)})
    small = {'Toric3DCode': (2, 2, 3), 'Planar3DCode': (2, 2, 2),
             'RotatedPlanar3DCode': (2, 2, 2), 'RotatedToric3DCode': (2, 2, 2)}
    small_t = {'Toric3DCode': (3, 3, 3), 'Planar3DCode': (3, 3, 3),
               'RotatedPlanar3DCode': (3, 3, 3),
               'RotatedToric3DCode': (2, 4, 2)}
    traj_sizes = {
        'Toric3DCode': [(3, 3, 3), (2, 3, 4), (4, 3, 2)],
        'Planar3DCode': [(3, 3, 3), (2, 3, 4), (4, 2, 3)],
        'RotatedPlanar3DCode': [(3, 3, 3), (4, 3, 2), (2, 4, 3)],
        'RotatedToric3DCode': [(2, 2, 2), (4, 2, 3), (2, 4, 2), (2, 3, 2)],
    }
    traj_extra = {
        'Toric3DCode': [(4, 4, 4), (5, 3, 3), (2, 2, 5), (3, 5, 4), (4, 4, 3)],
        'Planar3DCode': [(4, 4, 4), (5, 3, 2), (2, 2, 5), (3, 4, 5), (4, 3, 4)],
        'RotatedPlanar3DCode': [(4, 4, 3), (5, 5, 3), (3, 4, 5), (2, 5, 2),
                                (4, 4, 4)],
        'RotatedToric3DCode': [(4, 4, 2), (2, 6, 3), (4, 3, 2), (6, 4, 2),
                               (3, 4, 3)],
    }
    for dname, classes in HOME.items():
        rot = dname.startswith('Rotated')
        for cls in classes:
            ex = [small[cls]] + ([small_t[cls]] if tier == 'thorough' else [])
            for s in ex:
                n = fam.n_estimate(cls, s)
                nch = max(1, min(32, n * n // (300 if rot else 1200)))
                for c in range(nch):
                    tasks.append({'kind': 'traj', 'mode': 'exhaustive',
                                  'decoder': dname, 'cls': cls,
                                  'size': list(s), 'chunk': c,
                                  'nchunks': nch, 'seed': seed,
                                  'geometry': c == 0,
                                  'cost': n * n / 2 / nch *
                                  (12 if rot else 4) + 200})
            sizes = traj_sizes[cls] + (traj_extra[cls]
                                       if tier == 'thorough' else [])
            for s in sizes:
                nrand = 24 if tier == 'quick' else 100
                nseeds = 2 if tier == 'quick' else 3
                nch = 2 if tier == 'quick' else 8
                for c in range(nch):
                    tasks.append({'kind': 'traj', 'mode': 'random',
                                  'decoder': dname, 'cls': cls,
                                  'size': list(s), 'nrand': nrand // nch + 1,
                                  'nseeds': nseeds, 'chunk': c, 'seed': seed,
                                  'geometry': False,
                                  'cost': fam.n_estimate(cls, s) * nrand *
                                  nseeds * (40 if rot else 6) / nch + 200})
    return tasks


def run_task(task, out):
    if task['kind'] == 'geom':
        run_geom(task, out)
    elif task['kind'] == 'geomseq':
        for cls, size in task['seq']:
            check_geometry(out, task['decoder'], cls, tuple(size))
        out.count('interleaved_lattice_sequences')
    else:
        if not task.get('geometry', True):
            # still need to know which edges are wrong for tagging
            import io, contextlib
            from pv.common import Shard
            tmp = Shard()
            task['_bad_edges'] = check_geometry(tmp, task['decoder'],
                                                task['cls'],
                                                tuple(task['size']))
        run_traj(task, out)


def finalize(run, tier, seed):
    dirs = {k: v for k, v in run.counters.items() if k.startswith('dir_')}
    run.extra['sweep_directions_observed'] = dirs
    run.counters['all_8_directions'] = 1 if len(dirs) >= 8 else 0
    if len(dirs) < 8:
        run.notes.append(f'only {len(dirs)} of 8 sweep directions observed')


def classify(v):
    m = v['mechanism']
    if m.startswith('RotatedSweepDecoder3D/RotatedToric3DCode/') and (
            m.endswith('/flip_edge-geometry/seam-faces-missing') or
            m.endswith('/after-flipping-seam-edge')):
        return 'C10:RotatedSweepDecoder3D/RotatedToric3DCode/seam-edge'
    if m.startswith('RotatedSweepDecoder3D/RotatedToric3DCode/') and \
            '/odd-size-non-css/' in m and (
            'tracked-state-differs-from-true-residual' in m or
            'clean-stop-with-residual-syndrome' in m):
        return ('C10:RotatedSweepDecoder3D/RotatedToric3DCode/'
                'odd-size-defect-faces-untracked')
    return None


def replay(v, out):
    w = v['witness']
    if w.get('k') == 'geometry':
        check_geometry(out, w['decoder'], w['cls'], tuple(w['size']))
        return
    global MON
    from panqec.error_models import PauliErrorModel
    install(w['decoder'])
    MON = StepMonitor(out)
    code = fam.build(w['cls'], tuple(w['size']))
    from pv.common import Shard
    bad = check_geometry(Shard(), w['decoder'], w['cls'], tuple(w['size']))
    kw = {'max_rounds': 3} if w['decoder'].startswith('Rotated') else \
        {'max_sweep_factor': 4}
    dec = decoder_class(w['decoder'])(
        code, PauliErrorModel(1 / 3, 1 / 3, 1 / 3), 0.1, seed=w['seed'], **kw)
    e = z_error(code.n, w['error_z_qubits'])
    observe_decode(out, w['decoder'], code, dec, e, w,
                   f"{w['decoder']}/{w['cls']}/replay", bad)
    MON = None
