"""C04 — success is declared iff the residual error is a stabilizer.

Monitor: return values of code.in_codespace / logical_errors /
is_logical_error / is_success (and the run_once fields) for every Pauli on
small codes, judged against the explicitly enumerated stabilizer group S and
its normaliser N(S) computed with own GF(2) arithmetic.
"""
from __future__ import annotations

import numpy as np

from pv import gf2
from pv import families as fam

PROPERTY = 'C04'
LEVEL = 'exploration'
TECHNIQUE = ('runtime monitoring: reference-model oracle (explicit stabilizer '
             'group / normaliser membership on bit-packed ints) on every '
             'success / codespace / logical-effect verdict the library '
             'returns; full 4^n enumeration on n<=8 codes')
MANIFEST_TEXT = ('For every family code with n<=8 (deformed variants included)'
                 ' all 4^n Paulis are classified by the library and by an '
                 'independent enumeration of the stabilizer group; larger '
                 'codes get all basis vectors, generators, logicals and '
                 'random stabilizer*logical*arbitrary products. Exhaustive '
                 'per listed small code, sampled on large ones.')
MANIFEST_NOTE = ('Trusted: pv/gf2.py. The listed logicals are used as data '
                 '(their validity is C01).  Sector convention taken from the '
                 'property statement: bit i = X-type action (anticommutes '
                 'with logical Z_i), bit k+i = Z-type action.')
RULE = ('small codes: one case per Pauli operator (all 4^n; in quick a '
        '512-vector slice per code for n>=5); large codes: one case per '
        'probe vector; distinct = (class,size,deformation,vector); '
        'non-trivial = vector != 0')
ASSUMPTIONS = ['supported size family = pv/families.py']
REQUIRED_COUNTERS = ['vectors_given_as_2d_or_sparse', 'batches_classified',
                     'failure_rate_helper_calls',
                     'objects_judged_after_a_splitting_run',
                     'sparse_vectors_with_stored_zeros',
                     'vectors_classified', 'history_steps',
                     'objects_touched_before_judging', 'in_group', 'logical_nontrivial',
                     'out_of_codespace', 'run_once_records']
EXHAUSTIVE = True
EXHAUSTIVE_SCOPE = ('per small code listed in coverage.exhaustive_codes: '
                    'all 4^n operators (thorough: every family code with '
                    'n<=8; quick: n<=4 complete, 512-vector slices above)')


def small_codes(nmax):
    """Every (class, size, deformation, kwargs) in the family with n<=nmax."""
    out = []
    for cls in fam.ALL_CLASSES:
        for size in fam.sizes_upto(cls, 4):
            if fam.n_estimate(cls, size) > 3 * nmax + 24:
                continue
            try:
                code = fam.build(cls, size)
                n = code.n
            except Exception:
                continue
            if n <= nmax and n >= 1:
                for dname, kw in fam.deformations(cls):
                    out.append((cls, size, dname, kw, n))
    return out


LARGE = [('Toric2DCode', (4, 5)), ('Planar2DCode', (4, 3)),
         ('RotatedPlanar2DCode', (5, 4)), ('Toric3DCode', (2, 3, 2)),
         ('Planar3DCode', (2, 2, 3)), ('RotatedPlanar3DCode', (3, 2, 2)),
         ('RotatedToric3DCode', (2, 4, 2)), ('RhombicToricCode', (2, 2, 4)),
         ('RhombicPlanarCode', (2, 3, 2)), ('XCubeCode', (2, 3, 2)),
         ('HollowPlanar3DCode', (3, 3, 3)), ('HollowRhombicCode', (3, 3, 4)),
         ('Color666PlanarCode', (3, 3)), ('Color666ToricCode', (2, 2)),
         ('Color488Code', (2, 3)), ('Color3DCode', (2, 2, 2))]


def plan(tier, seed):
    tasks = []
    for cls, size, dname, kw, n in small_codes(8):
        # quick: complete up to n=4, then a 512-vector pseudo-random slice
        stride = max(1, 4 ** n // 512) if tier == 'quick' and n >= 5 else 1
        nchunks = 1 if 4 ** n // stride <= 5000 else 8
        for c in range(nchunks):
            tasks.append({'kind': 'small', 'cls': cls, 'size': list(size),
                          'deformation': dname, 'kwargs': kw, 'n': n,
                          'stride': stride, 'chunk': c, 'nchunks': nchunks,
                          'seed': seed, 'cost': 4 ** n / stride / nchunks})
    for cls, size in LARGE:
        for dname, kw in fam.deformations(cls):
            tasks.append({'kind': 'large', 'cls': cls, 'size': list(size),
                          'deformation': dname, 'kwargs': kw, 'seed': seed,
                          'tier': tier,
                          'cost': 4000 if tier == 'quick' else 40000})
        tasks.append({'kind': 'chain', 'cls': cls, 'size': list(size),
                      'seed': seed, 'tier': tier,
                      'cost': 3000 if tier == 'quick' else 20000})
    if tier == 'thorough':
        tasks.append({'kind': 'contracts', 'cost': 60000})
    tasks.append({'kind': 'run_once', 'seed': seed, 'tier': tier,
                  'cost': 3000})
    return tasks


def touch(code):
    """What constructing a Simulation (and ordinary use) reads off a code
    object before any verdict is asked for."""
    for attr in ('label', 'id', 'params', 'n', 'k', 'd', 'is_css',
                 'n_stabilizers', 'x_indices', 'z_indices', 'size'):
        getattr(code, attr)


class Oracle:
    def __init__(self, code):
        self.n = n = code.n
        self.H = gf2.pack_rows(code.stabilizer_matrix)
        self.Lx = gf2.pack_rows(code.logicals_x)
        self.Lz = gf2.pack_rows(code.logicals_z)
        self.k = len(self.Lx)
        self.ech = gf2.Echelon(self.H)
        self.Hs = [gf2.swap_halves(h, n) for h in self.H]
        self.Lxs = [gf2.swap_halves(h, n) for h in self.Lx]
        self.Lzs = [gf2.swap_halves(h, n) for h in self.Lz]

    def in_group(self, e):
        return self.ech.contains(e)

    def in_normaliser(self, e):
        return not any(gf2.popcount(e & h) & 1 for h in self.Hs)

    def logical_effect(self, e):
        # bit i: X-type action on logical qubit i <=> anticommutes with Z_i
        return ([gf2.popcount(e & z) & 1 for z in self.Lzs] +
                [gf2.popcount(e & x) & 1 for x in self.Lxs])


FORMS = ['1d', 'row2d', 'csr', 'csr0', 'csr-sum']


def as_form(e_int, n, dtype, form, salt=0):
    """The operator in one of the representations callers hold residual
    errors in.  'csr0' carries explicitly stored zeros, 'csr-sum' is the
    product of two sparse Paulis reduced with the library's own idiom
    (t = a + b; t.data %= 2), which stores a zero wherever they overlap."""
    import scipy.sparse as sp
    e = gf2.unpack(e_int, 2 * n).astype(dtype)
    if form == '1d':
        return e
    if form == 'row2d':
        return e.reshape(1, -1)
    if form == 'csr':
        return sp.csr_matrix(e.astype('uint8').reshape(1, -1))
    r = np.random.default_rng([e_int % (1 << 62), salt, 44])
    if form == 'csr0':
        nz = np.flatnonzero(e)
        zero_at = np.setdiff1d(r.choice(2 * n, size=min(2 * n, 3),
                                        replace=False), nz)
        idx = np.concatenate([nz, zero_at]).astype(np.int32)
        dat = np.concatenate([np.ones(len(nz)), np.zeros(len(zero_at))]
                             ).astype('uint8')
        o = np.argsort(idx)
        return sp.csr_matrix((dat[o], idx[o], np.array([0, len(idx)])),
                             shape=(1, 2 * n))
    a = (r.random(2 * n) < 0.3).astype('uint8')
    b = (a ^ e.astype('uint8')).astype('uint8')
    t = sp.csr_matrix(a.reshape(1, -1)) + sp.csr_matrix(b.reshape(1, -1))
    t.data %= 2
    return t


def judge(code, orc, e_int, desc, out, mech_base, dtype='uint8', form='1d'):
    """Classify one vector with the library and with the oracle."""
    n = orc.n
    e = as_form(e_int, n, dtype, form)
    if form != '1d':
        out.count('vectors_given_as_2d_or_sparse')
        if form in ('csr0', 'csr-sum') and \
                e.nnz > np.count_nonzero(e.toarray()):
            out.count('sparse_vectors_with_stored_zeros')
    lib_cs = code.in_codespace(e)
    lib_le = np.asarray(code.logical_errors(e))
    lib_isle = code.is_logical_error(e)
    lib_succ = code.is_success(e)
    out.count('vectors_classified')
    ref_cs = orc.in_normaliser(e_int)
    ref_grp = orc.in_group(e_int)
    ref_le = orc.logical_effect(e_int)
    if ref_grp:
        out.count('in_group')
    elif ref_cs:
        out.count('logical_nontrivial')
    else:
        out.count('out_of_codespace')

    def bad(tag, what):
        out.violation(f'{mech_base}/{tag}', what,
                      dict(desc, error=gf2.unpack(e_int, 2 * n), dtype=dtype,
                           form=form))

    if bool(lib_cs) != ref_cs:
        bad('in_codespace', f'in_codespace={lib_cs} but commutes-with-all='
            f'{ref_cs}')
    if form != '1d' and lib_le.size == 2 * orc.k:
        lib_le = lib_le.ravel()
    if lib_le.shape != (2 * orc.k,):
        bad('logical_errors-shape', f'shape {lib_le.shape} != ({2*orc.k},)')
    elif [int(x) for x in lib_le] != ref_le:
        bad('logical_errors-value',
            f'logical_errors={lib_le.tolist()} but reference effect='
            f'{ref_le}')
    if bool(lib_succ) != ref_grp:
        bad('is_success', f'is_success={lib_succ} but in-stabilizer-group='
            f'{ref_grp}')
    if ref_cs and bool(lib_isle) != (not ref_grp):
        bad('is_logical_error', f'is_logical_error={lib_isle} on a codespace '
            f'operator with in-group={ref_grp}')
    for val, nm in ((lib_cs, 'in_codespace'), (lib_isle, 'is_logical_error'),
                    (lib_succ, 'is_success')):
        if not isinstance(val, (bool, np.bool_)):
            bad(f'{nm}-type', f'{nm} returned {type(val).__name__}')
    return ref_grp, ref_cs, ref_le


def check_batches(code, orc, pool, desc, out, mech, rng, reps):
    """Stacks of residuals: row i of logical_errors(batch) is the effect of
    residual i, column j of measure_syndrome(batch) its syndrome -- for every
    batch size, in particular k and 2k rows (square effect matrices)."""
    import scipy.sparse as sp
    n, k = orc.n, orc.k
    sizes = sorted({1, 2, 3, 5, k, 2 * k, k + 1} - {0})
    for _ in range(reps):
        for m in sizes:
            idx = rng.integers(0, len(pool), size=m)
            batch = [pool[int(i)] for i in idx]
            E = np.array([gf2.unpack(e, 2 * n) for e in batch], dtype='uint8')
            for form in ('dense', 'csr'):
                X = E if form == 'dense' else sp.csr_matrix(E)
                out.count('batches_classified')
                le = np.asarray(code.logical_errors(X))
                ref = np.array([orc.logical_effect(e) for e in batch])
                w = dict(desc, batch_rows=m, form=form)
                if m == 1 and le.ndim == 1:
                    le = le.reshape(1, -1)
                if le.shape != ref.shape:
                    out.violation(f'{mech}/batch/logical_errors-shape',
                                  f'shape {le.shape} for a batch of {m} '
                                  f'residuals on k={k}', w)
                    return
                if not np.array_equal(le.astype(int), ref):
                    out.violation(f'{mech}/batch/logical_errors-value',
                                  f'logical_errors of a batch of {m} '
                                  'residuals differs from the per-residual '
                                  'logical effects', w)
                    return
                syn = np.asarray(code.measure_syndrome(X))
                sref = np.array([gf2.syndrome(orc.H, e, n) for e in batch]).T
                # a single generator or a single residual comes back squeezed
                if syn.ndim == 1 and syn.size == sref.size and \
                        1 in sref.shape:
                    syn = syn.reshape(sref.shape)
                if syn.shape != sref.shape or \
                        not np.array_equal(syn.astype(int), sref):
                    out.violation(f'{mech}/batch/measure_syndrome',
                                  f'measure_syndrome of a batch of {m} '
                                  'differs from the per-residual syndromes',
                                  w)
                    return


def run_small(task, out):
    cls, size = task['cls'], tuple(task['size'])
    # the reference is taken from one object, the verdicts from ANOTHER one
    # on which the derived attributes were read first (every second chunk)
    code = fam.build(cls, size, task['deformation'], task['kwargs'])
    orc = Oracle(fam.build(cls, size, task['deformation'], task['kwargs']))
    if (task['chunk'] + len(cls)) % 2 == 0:
        touch(code)
        out.count('objects_touched_before_judging')
    n = orc.n
    desc = {'cls': cls, 'size': list(size),
            'deformation': task['deformation'], 'kwargs': task['kwargs']}
    mech = cls + (f"/{task['deformation']}" if task['deformation'] else '')
    total = 4 ** n
    stride, c, nch = task['stride'], task['chunk'], task['nchunks']
    # slice = first total/stride points of the bijection i -> i*MULT+off
    # (mod 4^n, MULT odd), so no bit of the vector is held fixed
    MULT = 0x9E3779B1
    off = (task['seed'] * 2654435761 + 12345) % total
    npts = total // stride
    idx = range(c, npts, nch)
    cnt = 0
    grp = 0
    for i in idx:
        e_int = (i * MULT + off) % total if stride > 1 else i
        g, cs, le = judge(code, orc, e_int, desc, out, mech,
                          form=FORMS[1 + (i // 7) % 4] if i % 7 == 3
                          else '1d')
        cnt += 1
        grp += g
    if c == 0:
        brng = np.random.default_rng([task['seed'], 405, n])
        pool = [int(x) for x in brng.integers(0, total, size=64)] + \
            list(orc.Lx) + list(orc.Lz) + list(orc.H[:4])
        check_batches(code, orc, pool, desc, out, mech, brng, 4)
    out.case(dict(desc, chunk=c), nontrivial=True, n=cnt,
             distinct=cnt - (1 if stride == 1 and c == 0 else 0),
             sample=dict(desc, n=n, vectors=cnt, in_group=grp,
                         group_order=2 ** orc.ech.rank))
    # per-vector distinctness: all vectors in a chunk are distinct ints
    out.count('distinct_vectors', cnt)
    if stride == 1:
        out.extra.setdefault('exhaustive_codes', [])
        if c == 0:
            out.extra['exhaustive_codes'].append(
                f"{cls}{tuple(size)}{'+' + task['deformation'] + str(task['kwargs']) if task['deformation'] else ''}:n={n}")


def run_large(task, out):
    cls, size = task['cls'], tuple(task['size'])
    code = fam.build(cls, size, task['deformation'], task['kwargs'])
    orc = Oracle(fam.build(cls, size, task['deformation'], task['kwargs']))
    touch(code)
    out.count('objects_touched_before_judging')
    n, k = orc.n, orc.k
    rng = np.random.default_rng([task['seed'], 404, len(cls), n])
    desc = {'cls': cls, 'size': list(size),
            'deformation': task['deformation'], 'kwargs': task['kwargs']}
    mech = cls + (f"/{task['deformation']}" if task['deformation'] else '')
    probes = []
    probes += [1 << i for i in range(2 * n)]                 # basis
    probes += [(1 << i) | (1 << (i + n)) for i in range(n)]  # single Y
    probes += list(orc.H) + list(orc.Lx) + list(orc.Lz) + [0]
    nrand = 200 if task['tier'] == 'quick' else 3000
    H, Lx, Lz = orc.H, orc.Lx, orc.Lz
    for _ in range(nrand):
        v = 0
        for h in rng.choice(len(H), size=int(rng.integers(0, min(len(H), 12) + 1)),
                            replace=False) if len(H) else []:
            v ^= H[int(h)]
        mode = rng.integers(0, 4)
        if mode >= 1:      # times a logical
            for i in range(k):
                if rng.random() < 0.4:
                    v ^= Lx[i]
                if rng.random() < 0.4:
                    v ^= Lz[i]
        if mode >= 3:      # times an arbitrary sparse error
            for q in rng.choice(2 * n, size=int(rng.integers(1, 4))):
                v ^= 1 << int(q)
        probes.append(v)
    dts = ['uint8', 'int64', 'uint64', 'int8']
    for j, e_int in enumerate(probes):
        judge(code, orc, e_int, desc, out, mech, dtype=dts[j % 4],
              form=FORMS[(j // 4) % 5] if j % 3 == 0 else '1d')
    check_batches(code, orc, probes, desc, out, mech, rng,
                  2 if task['tier'] == 'quick' else 10)
    out.case(desc, True, n=len(probes),
             distinct=len(set(probes) - {0}),
             sample=dict(desc, n=n, k=k, probes=len(probes)))
    # additivity / coset-constancy of logical_errors on observed outputs
    for _ in range(50 if task['tier'] == 'quick' else 400):
        a = probes[int(rng.integers(0, len(probes)))]
        b = probes[int(rng.integers(0, len(probes)))]
        s = H[int(rng.integers(0, len(H)))] if H else 0
        la = np.asarray(code.logical_errors(gf2.unpack(a, 2 * n)))
        lb = np.asarray(code.logical_errors(gf2.unpack(b, 2 * n)))
        lab = np.asarray(code.logical_errors(gf2.unpack(a ^ b, 2 * n)))
        las = np.asarray(code.logical_errors(gf2.unpack(a ^ s, 2 * n)))
        out.count('linearity_checks')
        if not np.array_equal((la + lb) % 2, lab % 2):
            out.violation(f'{mech}/logical_errors-not-additive',
                          'logical_errors(a+b) != sum', desc)
        if not np.array_equal(la, las):
            out.violation(f'{mech}/logical_errors-not-coset-constant',
                          'logical_errors changes under a stabilizer', desc)
    for i in range(k):
        lx = np.asarray(code.logical_errors(gf2.unpack(Lx[i], 2 * n)))
        lz = np.asarray(code.logical_errors(gf2.unpack(Lz[i], 2 * n)))
        ux = [int(j == i) for j in range(2 * k)]
        uz = [int(j == k + i) for j in range(2 * k)]
        if lx.tolist() != ux or lz.tolist() != uz:
            out.violation(f'{mech}/sector-convention',
                          f'logical_errors(X_{i})={lx.tolist()}, '
                          f'(Z_{i})={lz.tolist()}', desc)


def run_chain(task, out):
    """History on ONE object: use it, deform, use it, deform again ...
    Verdicts after each deformation are judged against an oracle built from
    a FRESH object deformed once (C08 says that is what deform must give)."""
    cls, size = task['cls'], tuple(task['size'])
    rng = np.random.default_rng([task['seed'], 406, len(cls)])
    defs = fam.deformations(cls)
    seq = list(range(len(defs))) + [0, len(defs) - 1]
    chain = fam.build(cls, size)
    hist = []
    nprobe = 60 if task['tier'] == 'quick' else 400
    for di in seq:
        dname, kw = defs[di]
        if hist or dname is not None:
            if dname is None:
                continue        # there is no "un-deform" call
            chain.deform(dname, **kw)
        hist.append([dname, kw])
        fresh = fam.build(cls, size, dname, kw)
        orc = Oracle(fresh)
        n, k = orc.n, orc.k
        desc = {'cls': cls, 'size': list(size), 'deformation': dname,
                'kwargs': kw, 'history': list(hist)}
        mech = cls + (f'/{dname}' if dname else '') + '/after-history'
        probes = [0] + list(orc.H[:20]) + list(orc.Lx) + list(orc.Lz)
        probes += [1 << int(q) for q in rng.choice(2 * n, size=10)]
        for _ in range(nprobe):
            v = 0
            for h in orc.H:
                if rng.random() < 0.2:
                    v ^= h
            m = int(rng.integers(0, 3))
            if m >= 1 and k:
                i = int(rng.integers(0, k))
                v ^= orc.Lx[i] if rng.random() < 0.5 else orc.Lz[i]
            if m == 2:
                v ^= 1 << int(rng.integers(0, 2 * n))
            probes.append(v)
        for e_int in probes:
            judge(chain, orc, e_int, desc, out, mech)
        out.count('history_steps')
        out.case(desc, True, n=len(probes), distinct=len(set(probes) - {0}))


class _PresetModel:
    """Error model whose generate() returns a prescribed vector."""
    def __init__(self):
        self.e = None

    def generate(self, code, error_rate, rng=None):
        return self.e.copy()


class _PresetDecoder:
    def __init__(self):
        self.c = None

    def decode(self, syndrome, **kw):
        return self.c.copy()


def run_run_once(task, out):
    """success/codespace/effective_error fields of run_once for controlled
    residuals: in S, logical, outside the codespace."""
    from panqec.simulation import run_once
    rng = np.random.default_rng([task['seed'], 405])
    picks = [('Toric2DCode', (2, 3)), ('Planar2DCode', (3, 2)),
             ('XCubeCode', (2, 2, 2)), ('Color666ToricCode', (1, 1)),
             ('RotatedPlanar3DCode', (2, 2, 2)), ('Toric3DCode', (2, 2, 2))]
    reps = 60 if task['tier'] == 'quick' else 600
    for cls, size in picks:
        for dname, kw in fam.deformations(cls)[:2]:
            code = fam.build(cls, size, dname, kw)
            orc = Oracle(code)
            n, k = orc.n, orc.k
            em, dec = _PresetModel(), _PresetDecoder()
            desc = {'cls': cls, 'size': list(size), 'deformation': dname,
                    'f': 'run_once'}
            for _ in range(reps):
                e = int.from_bytes(rng.bytes((2 * n + 7) // 8), 'little') \
                    & ((1 << (2 * n)) - 1)
                mode = int(rng.integers(0, 3))
                resid = 0
                for h in orc.H:
                    if rng.random() < 0.3:
                        resid ^= h
                if mode == 1:
                    i = int(rng.integers(0, k))
                    resid ^= (orc.Lx[i] if rng.random() < 0.5 else orc.Lz[i])
                if mode == 2:
                    resid ^= 1 << int(rng.integers(0, 2 * n))
                c = e ^ resid
                em.e = gf2.unpack(e, 2 * n)
                dec.c = gf2.unpack(c, 2 * n).astype(np.uint)
                rec = run_once(code, em, dec, 0.1, rng=rng)
                out.count('run_once_records')
                g = orc.in_group(resid)
                cs = orc.in_normaliser(resid)
                le = orc.logical_effect(resid)
                if bool(rec['success']) != g:
                    out.violation('run_once/success',
                                  f"success={rec['success']} but residual "
                                  f'in group={g}', dict(desc, mode=mode))
                if bool(rec['codespace']) != cs:
                    out.violation('run_once/codespace',
                                  f"codespace={rec['codespace']} vs {cs}",
                                  dict(desc, mode=mode))
                if [int(x) for x in rec['effective_error']] != le:
                    out.violation('run_once/effective_error',
                                  'effective_error != reference effect',
                                  dict(desc, mode=mode))
            out.case(desc, True, n=reps)
            # the helper that turns trials into a failure rate (also used by
            # the splitting method): scripted residuals of every class --
            # stabilizer, logical, outside the code space with and without a
            # logical effect -- the rate must be the share outside the group
            from panqec.simulation._direct_simulation import \
                calculate_logical_error_rate
            seq_e, seq_c, fails = [], [], 0
            nseq = 40
            for t in range(nseq):
                e = int.from_bytes(rng.bytes((2 * n + 7) // 8), 'little') \
                    & ((1 << (2 * n)) - 1)
                resid = 0
                for h in orc.H:
                    if rng.random() < 0.3:
                        resid ^= h
                mode = t % 4
                if mode in (1, 3):
                    i = int(rng.integers(0, k))
                    resid ^= (orc.Lx[i] if rng.random() < 0.5 else orc.Lz[i])
                if mode in (2, 3):
                    # leave the code space without touching the logical
                    # effect: a single-qubit error times what cancels its
                    # logical action is simply a detectable error
                    resid ^= 1 << int(rng.integers(0, 2 * n))
                fails += not orc.in_group(resid)
                seq_e.append(gf2.unpack(e, 2 * n))
                seq_c.append(gf2.unpack(e ^ resid, 2 * n).astype(np.uint))
            sem, sdec = _SeqModel(seq_e), _SeqDecoder(seq_c)
            got = calculate_logical_error_rate(code, sem, sdec, 0.1, nseq)
            out.count('failure_rate_helper_calls')
            if abs(float(got) - fails / nseq) > 1e-12:
                out.violation('calculate_logical_error_rate/not-the-share-'
                              'outside-the-stabilizer-group',
                              f'returned {got} for {nseq} scripted trials of '
                              f'which {fails} leave a residual outside the '
                              'stabilizer group', desc)
            # the same code object after a splitting-method run on it
            try:
                check_after_splitting(code, cls, size, dname, kw, out, rng)
            except Exception as e:
                from pv.common import panqec_frame
                where = panqec_frame(e)
                if where is None:
                    raise
                out.violation(f'{cls}/after-splitting-run/raises-'
                              f'{type(e).__name__}',
                              f'{type(e).__name__}: {e} at {where}', desc)


class _SeqModel:
    def __init__(self, seq):
        self.seq, self.i = seq, 0

    def generate(self, code, error_rate, rng=None):
        self.i += 1
        return self.seq[self.i - 1].copy()


class _SeqDecoder:
    def __init__(self, seq):
        self.seq, self.i = seq, 0

    def decode(self, syndrome, **kw):
        self.i += 1
        return self.seq[self.i - 1].copy()


def check_after_splitting(code, cls, size, dname, kw, out, rng):
    """Other components use the code object between verdicts: a splitting
    simulation is built on it and run, then the verdicts on that SAME object
    are judged against an oracle from a fresh one."""
    import contextlib
    import io
    from panqec.error_models import PauliErrorModel
    from panqec.decoders import BeliefPropagationOSDDecoder
    from panqec.simulation import SplittingSimulation
    em = PauliErrorModel(0.4, 0.2, 0.4)
    rates = [0.3, 0.2]
    with contextlib.redirect_stdout(io.StringIO()):
        decs = [BeliefPropagationOSDDecoder(code, em, r) for r in rates]
        sim = SplittingSimulation(code, em, decs, rates, n_init_runs=5)
        try:
            sim.run(30)
        except (ValueError, NotImplementedError):
            return      # no failing initial error for this decoder: not run
    out.count('objects_judged_after_a_splitting_run')
    orc = Oracle(fam.build(cls, size, dname, kw))
    n = orc.n
    desc = {'cls': cls, 'size': list(size), 'deformation': dname,
            'after': 'SplittingSimulation.run(30) on the same object'}
    mech = cls + (f'/{dname}' if dname else '') + '/after-splitting-run'
    probes = list(orc.H[:6]) + list(orc.Lx) + list(orc.Lz) + [0]
    for _ in range(30):
        v = 0
        for h in orc.H:
            if rng.random() < 0.3:
                v ^= h
        if rng.random() < 0.5:
            v ^= orc.Lx[int(rng.integers(0, orc.k))]
        if rng.random() < 0.3:
            v ^= 1 << int(rng.integers(0, 2 * n))
        probes.append(v)
    for e_int in probes:
        judge(code, orc, e_int, desc, out, mech)


def run_task(task, out):
    if task['kind'] == 'contracts':
        from pv.pytest_contracts import run_contract_suite
        run_contract_suite(out, 'is_success', 'is_success')
        return
    {'small': run_small, 'large': run_large, 'chain': run_chain,
     'run_once': run_run_once}[task['kind']](task, out)


def classify(v):
    return None


def replay(v, out):
    w = v['witness']
    if 'error' not in w:
        print('no single-vector witness; rerun the check')
        return
    code = fam.build(w['cls'], tuple(w['size']), w.get('deformation'),
                     w.get('kwargs') or {})
    orc = Oracle(code)
    judge(code, orc, gf2.pack(w['error']), w, out, w['cls'],
          dtype=w.get('dtype', 'uint8'))
