"""C13 — input specifications expand to exactly the requested simulations.

Monitors:
  * expand_input_ranges / get_runs / count_runs and the LIVE objects of
    read_input_dict(spec, out)._simulations are compared, as multisets, with
    an independently written Cartesian product of the spec;
  * registries: every key of CODES / ERROR_MODELS / DECODERS maps to the class
    exported under that name (and register_* files a class under its name);
  * round trip: every simulation's recorded _inputs is pushed through JSON and
    re-instantiated through the registries; code matrices, probability
    tables, decoder parameters and the first decodes must be identical.
"""
from __future__ import annotations

import contextlib
import io
import itertools
import json
import os
import tempfile

import numpy as np

from pv import gf2
from pv import families as fam
from pv.common import panqec_frame

PROPERTY = 'C13'
LEVEL = 'exploration'
TECHNIQUE = ('runtime monitoring: reference-model oracle (own Cartesian '
             'expansion) on the simulations actually instantiated from '
             'generated specifications; registry and JSON round-trip '
             'post-conditions on live objects')
MANIFEST_TEXT = ('Hundreds (quick) to thousands (thorough) of generated '
                 'specifications in the three accepted shapes (ranges dict, '
                 'list of ranges, explicit runs; dict / list parameter '
                 'forms; 1-5 values per axis) are parsed by the real reader '
                 'and every resulting simulation object is compared with an '
                 'independent product; every registry key and every recorded '
                 '_inputs round trip is checked.')
MANIFEST_NOTE = ('Specs stay inside the forms the fixtures and docs use '
                 '(error_rate a list inside ranges; scalar inside runs). '
                 'Trusted: itertools.product in the reference, json.')
RULE = ('case = one generated specification (or one registry key / one '
        'round trip); distinct by spec digest; non-trivial = the spec '
        'expands to >= 2 simulations')
ASSUMPTIONS = ['supported size family = pv/families.py']
REQUIRED_COUNTERS = ['specs_parsed', 'simulations_compared',
                     'registry_keys_checked', 'round_trips',
                     'expand_calls_checked', 'runs_form_specs',
                     'list_of_ranges_specs',
                     'expansions_after_reregistration',
                     'splitting_simulations_expanded',
                     'specs_written_by_generate_input',
                     'specifications_expanded_twice',
                     'method_counts_compared']

CODE_POOL = {
    'Toric2DCode': [(2, 2), (3, 3), (2, 3), (3, 4), (4, 4)],
    'Planar2DCode': [(2, 2), (3, 3), (2, 3), (4, 3), (3, 5)],
    'RotatedPlanar2DCode': [(2, 2), (3, 3), (2, 3), (4, 3), (5, 5)],
    'Toric3DCode': [(2, 2, 2), (2, 3, 2), (3, 3, 3), (2, 2, 3), (3, 3, 2)],
    'Planar3DCode': [(2, 2, 2), (2, 3, 2), (3, 2, 2), (2, 2, 3), (3, 3, 2)],
    'RotatedPlanar3DCode': [(2, 2, 2), (3, 2, 2), (2, 2, 3), (3, 3, 2)],
    'RotatedToric3DCode': [(2, 2, 2), (2, 4, 2)],
    'XCubeCode': [(2, 2, 2), (2, 2, 3)],
    'Color666PlanarCode': [(1, 1), (2, 2), (3, 3)],
    'RhombicToricCode': [(2, 2, 2)],
    'RhombicPlanarCode': [(2, 2, 2), (2, 3, 2)],
    'HollowPlanar3DCode': [(2, 2, 2), (3, 3, 3)],
    'Color488Code': [(1, 1), (1, 2)],
}
DECODERS_FOR = {
    'MatchingDecoder': [{}, {'error_type': 'X'}, {'error_type': 'Z'}],
    'BeliefPropagationOSDDecoder': [
        {}, {'max_bp_iter': 10}, {'osd_order': 3, 'max_bp_iter': 20},
        {'osd_order': 0}, {'osd_order': 0, 'max_bp_iter': 0},
        {'channel_update': True}, {'bp_method': 'product_sum'}],
    'UnionFindDecoder': [{}],
    'SweepMatchDecoder': [{}],
    'RotatedSweepMatchDecoder': [{}, {'max_rounds': 4}],
    'XCubeMatchingDecoder': [{}],
    'MemoryBeliefPropagationDecoder': [{}, {'alpha': 0.0},
                                       {'max_bp_iter': 3, 'beta': 0.0,
                                        'alpha': 0.5}],
}


USER_DECODERS = {
    'PvForwardingDecoder': [{}, {'osd_order': 0}, {'max_bp_iter': 7},
                            {'osd_order': 2, 'max_bp_iter': 11}],
    'PvExtraOptionDecoder': [{}, {'my_opt': 3}, {'osd_order': 0, 'my_opt': 1},
                             {'max_bp_iter': 5}],
}
DECODERS_FOR.update(USER_DECODERS)


def ensure_user_decoders():
    """Decoder classes a user registers (register_decoder): subclasses of a
    library decoder whose constructors forward options through **kwargs."""
    from panqec import config
    from panqec.decoders import BeliefPropagationOSDDecoder
    if 'PvForwardingDecoder' in config.DECODERS:
        return

    class PvForwardingDecoder(BeliefPropagationOSDDecoder):
        def __init__(self, *args, **kwargs):
            super().__init__(*args, **kwargs)

    class PvExtraOptionDecoder(BeliefPropagationOSDDecoder):
        def __init__(self, code, error_model, error_rate, my_opt=None,
                     **kwargs):
            super().__init__(code, error_model, error_rate, **kwargs)
            self.my_opt = my_opt

        @property
        def params(self):
            return dict(super().params, my_opt=self.my_opt)

    config.register_decoder(PvForwardingDecoder)
    config.register_decoder(PvExtraOptionDecoder)


def allowed_decoders(cls):
    from panqec.config import DECODERS
    ensure_user_decoders()
    out = []
    for d in DECODERS_FOR:
        ac = DECODERS[d].allowed_codes
        if ac is None or cls in ac:
            out.append(d)
    return out


def gen_ranges(rng):
    cls = str(rng.choice(list(CODE_POOL)))
    sizes = CODE_POOL[cls]
    k = int(rng.integers(1, min(5, len(sizes)) + 1))
    pick = [sizes[int(i)] for i in rng.choice(len(sizes), size=k,
                                               replace=False)]
    form = str(rng.choice(['dict', 'list', 'single-dict']))
    keys = ['L_x', 'L_y', 'L_z']
    if form == 'single-dict':
        pick = pick[:1]
        code_params = dict(zip(keys, pick[0]))
    elif form == 'dict':
        code_params = [dict(zip(keys, s)) for s in pick]
        # a side equal to L_x may be left out (it defaults to L_x), also a
        # middle one: {'L_x': 2, 'L_z': 3}
        for cp, sz in zip(code_params, pick):
            if len(sz) == 3 and sz[1] == sz[0] and rng.random() < 0.6:
                del cp['L_y']
            elif len(sz) == 2 and sz[1] == sz[0] and rng.random() < 0.3:
                del cp['L_y']
    else:
        code_params = [list(s) for s in pick]
    # error models
    names = fam.get_class(cls).deformation_names
    nm = int(rng.integers(1, 4))
    ems = []
    for _ in range(nm):
        d = rng.dirichlet([1, 1, 1])
        d = [round(float(x), 3) for x in d]
        d[2] = round(1 - d[0] - d[1], 6)
        p = {'r_x': d[0], 'r_y': d[1], 'r_z': d[2]}
        if rng.random() < 0.15:
            # hand-typed truncated decimals (sum within isclose of 1)
            p = [{'r_x': 0.333333333, 'r_y': 0.333333333,
                  'r_z': 0.333333333},
                 {'r_x': 0.0454545, 'r_y': 0.0454545, 'r_z': 0.9090909},
                 {'r_x': 0.33333, 'r_y': 0.33333, 'r_z': 0.33334}][
                int(rng.integers(0, 3))]
        if names and rng.random() < 0.4:
            p['deformation_name'] = names[0]
        ems.append(p)
    # parameter sets that differ only where a display label does not look:
    # deformation_kwargs, or a direction differing beyond the 4th decimal
    if names and rng.random() < 0.35:
        base = dict(ems[0])
        base['deformation_name'] = names[0]
        axes = ['x', 'y'] if fam.dimension(cls) == 2 else ['x', 'y', 'z']
        import inspect
        if 'deformation_axis' in inspect.signature(
                fam.get_class(cls).get_deformation).parameters:
            ems = [dict(base, deformation_kwargs={'deformation_axis': a})
                   for a in axes[:int(rng.integers(2, len(axes) + 1))]]
            if rng.random() < 0.5:
                ems.append(dict(base))
    elif rng.random() < 0.2:
        base = dict(ems[0])
        tw = dict(base)
        tw['r_x'] = round(base['r_x'] + 2e-6, 9)
        tw['r_z'] = round(1 - tw['r_x'] - tw['r_y'], 9)
        if tw['r_z'] >= 0:
            ems = [base, tw]
    em_form = str(rng.choice(['dict', 'list', 'positional']))
    if any('deformation_kwargs' in e for e in ems) and em_form != 'list':
        em_form = 'list'
    if em_form == 'dict':
        ems = ems[:1]
        em_params = ems[0]
    elif em_form == 'positional':
        ems = [{'r_x': e['r_x'], 'r_y': e['r_y'], 'r_z': e['r_z']}
               for e in ems]
        em_params = [[e['r_x'], e['r_y'], e['r_z']] for e in ems]
    else:
        em_params = ems
    dname = str(rng.choice(allowed_decoders(cls)))
    if dname == 'RotatedSweepMatchDecoder' and cls == 'RotatedToric3DCode' \
            and any(s[0] % 2 or s[1] % 2 for s in pick):
        dname = 'BeliefPropagationOSDDecoder'
    opts = DECODERS_FOR[dname]
    nd = int(rng.integers(1, len(opts) + 1))
    decs = [dict(opts[int(i)]) for i in rng.choice(len(opts), size=nd,
                                                    replace=False)]
    dec_form = str(rng.choice(['absent', 'dict', 'list']))
    dec = {'name': dname}
    if dec_form == 'absent':
        decs = [{}]
    elif dec_form == 'dict':
        decs = decs[:1]
        dec['parameters'] = dict(decs[0])
    else:
        dec['parameters'] = [dict(d) for d in decs]
        if len(dec['parameters']) == 0:
            decs = [{}]
    nr = int(rng.integers(1, 6))
    rates = sorted({round(float(x), 4) for x in rng.uniform(0.01, 0.4,
                                                            size=nr)})
    ranges = {'label': 'pv', 'code': {'name': cls, 'parameters': code_params},
              'error_model': {'name': 'PauliErrorModel',
                              'parameters': em_params},
              'decoder': dec, 'error_rate': list(rates)}
    ref = []
    for s, e, d, r in itertools.product(pick, ems, decs, rates):
        ref.append(expected_tuple(cls, s, e, dname, d, r))
    return ranges, ref


def full_size(cls, s):
    dim = fam.dimension(cls)
    s = list(s)
    while len(s) < dim:
        s.append(s[0])
    return tuple(s[:dim])


def expected_tuple(cls, size, em, dname, dparams, rate):
    return (cls, full_size(cls, size),
            (em['r_x'], em['r_y'], em['r_z'], em.get('deformation_name'),
             repr(sorted((em.get('deformation_kwargs') or {}).items()))),
            dname, tuple(sorted((k, repr(v)) for k, v in dparams.items())),
            rate)


def observed_tuple(sim, given_keys):
    em = sim.error_model
    dp = sim.decoder.params
    return (type(sim.code).__name__, tuple(sim.code.size),
            tuple(em.direction) + (
                em.params['deformation_name'],
                repr(sorted((em.params.get('deformation_kwargs')
                             or {}).items()))),
            type(sim.decoder).__name__,
            tuple(sorted((k, repr(dp[k])) for k in given_keys if k in dp)),
            sim.error_rate)


def check_spec(out, spec, ref, desc, mech, ref_dec_keys, spec_obj=None,
               expected_types=None):
    from panqec.simulation import read_input_dict
    from panqec.simulation._batch_simulation import (
        expand_input_ranges, get_runs)
    work = os.environ.get('PV_WORK') or tempfile.gettempdir()
    path = os.path.join(work, f'c13-{os.getpid()}.json')
    # spec_obj: the very dict that was expanded before (a script that reads
    # the same specification twice, or counts its runs first)
    spec_copy = json.loads(json.dumps(spec)) if spec_obj is None else spec_obj
    check_spec.last_object = spec_copy
    try:
        with contextlib.redirect_stdout(io.StringIO()):
            batch = read_input_dict(spec_copy, path, verbose=False)
    except Exception as e:
        where = panqec_frame(e)
        if where is None:
            raise
        out.violation(f'{mech}/read_input_dict-raises-{type(e).__name__}',
                      f'{type(e).__name__}: {e} at {where}',
                      dict(desc, spec=spec))
        return None
    out.count('specs_parsed')
    real_sims = list(batch._simulations)
    if expected_types is not None:
        # each entry is expanded with the method IT names (direct if none)
        got_types = (sum(1 for x in real_sims
                         if type(x).__name__ == 'DirectSimulation'),
                     sum(1 for x in real_sims
                         if type(x).__name__ == 'SplittingSimulation'))
        out.count('method_counts_compared')
        if got_types != tuple(expected_types):
            out.violation(f'{mech}/method-of-the-simulations',
                          f'{got_types[0]} direct and {got_types[1]} '
                          f'splitting simulations built, the entries ask for '
                          f'{expected_types[0]} and {expected_types[1]}',
                          dict(desc, spec=spec))
    sims = []
    for sim in real_sims:
        if type(sim).__name__ == 'SplittingSimulation':
            # one chain per requested rate: judged as one simulation per
            # (code, noise, decoder parameters, rate) like the direct method
            out.count('splitting_simulations_expanded')
            if sorted(float(x) for x in sim.error_rates) != \
                    sorted({float(d.error_rate) for d in sim.decoders}) or \
                    len(sim.decoders) != len(sim.error_rates):
                out.violation(f'{mech}/splitting/rates-vs-decoders',
                              f'error_rates {list(sim.error_rates)} but '
                              'decoders built at '
                              f'{[d.error_rate for d in sim.decoders]}',
                              dict(desc, spec=spec))
            for d in sim.decoders:
                sims.append(_PerRate(sim.code, sim.error_model, d,
                                     d.error_rate))
        else:
            sims.append(sim)
    got = []
    for sim, keys in zip(sims, itertools.cycle([None])):
        got.append(sim)
    # compare as multisets
    exp_sorted = sorted(ref, key=repr)
    obs = []
    for sim in sims:
        # the keys given for this simulation's decoder are those of the
        # expected tuple with the same (class,size,em,decoder,rate) prefix;
        # compare on the union of keys ever given for this decoder
        obs.append(observed_tuple(sim, ref_dec_keys))
    exp_full = [(c, s, e, d, tuple(sorted(set(dp) | {
        (k, None) for k in ()})), r) for c, s, e, d, dp, r in ref]
    out.count('simulations_compared', len(sims))
    # decoder parameter comparison: every GIVEN key must read back equal;
    # keys not given are projected away on both sides
    def project(t, keys):
        c, s, e, d, dp, r = t
        return (c, s, tuple(round(x, 12) if isinstance(x, float) else x
                            for x in e), d,
                tuple(kv for kv in dp if kv[0] in keys), round(r, 12))
    # group expected by given-key set
    exp_proj = sorted((project(t, {k for k, _ in t[4]}) for t in ref),
                      key=repr)
    obs_proj = []
    pool = list(exp_proj)
    unmatched_obs = []
    for o in obs:
        # find an expected tuple this observation satisfies
        hit = None
        for i, t in enumerate(pool):
            keys = {k for k, _ in t[4]}
            if project(o, keys) == t:
                hit = i
                break
        if hit is None:
            unmatched_obs.append(o)
        else:
            pool.pop(hit)
    if unmatched_obs or pool:
        tag = 'expansion-mismatch'
        if len(sims) < len(ref):
            tag += '/simulations-missing'
        elif len(sims) > len(ref):
            tag += '/simulations-extra'
        else:
            tag += '/wrong-parameters'
        out.violation(f'{mech}/{tag}',
                      f'{len(sims)} simulations built, {len(ref)} expected; '
                      f'unexpected: {unmatched_obs[:2]}; missing: {pool[:2]}',
                      dict(desc, spec=spec))
    return [sm for sm in sims if not isinstance(sm, _PerRate)]


class _PerRate:
    def __init__(self, code, error_model, decoder, error_rate):
        self.code, self.error_model = code, error_model
        self.decoder, self.error_rate = decoder, error_rate


def check_expand(out, ranges, ref, desc, mech):
    """expand_input_ranges on a single ranges dict, as dict-level multiset."""
    from panqec.simulation._batch_simulation import expand_input_ranges
    runs = expand_input_ranges(json.loads(json.dumps(ranges)))
    out.count('expand_calls_checked')
    if len(runs) != len(ref):
        out.violation(f'{mech}/expand_input_ranges-count',
                      f'expand_input_ranges gives {len(runs)} runs, '
                      f'{len(ref)} expected', dict(desc, ranges=ranges))
        return
    keyset = []
    for r in runs:
        keyset.append(json.dumps([r['code']['parameters'],
                                  r['error_model']['parameters'],
                                  r['decoder']['parameters'],
                                  r['error_rate']], sort_keys=True))
    # reference at dict level
    def rng_list(p):
        if isinstance(p, list) and len(p) > 0:
            return p
        if isinstance(p, dict) and len(p) > 0:
            return [p]
        return [{}]
    cp = rng_list(ranges['code']['parameters'])
    ep = rng_list(ranges['error_model']['parameters'])
    dp = rng_list(ranges['decoder'].get('parameters', []))
    exp = sorted(json.dumps([c, e, d, r], sort_keys=True)
                 for c, e, d, r in itertools.product(cp, ep, dp,
                                                     ranges['error_rate']))
    if sorted(keyset) != exp:
        out.violation(f'{mech}/expand_input_ranges-content',
                      'expanded runs are not the Cartesian product of the '
                      'four ranges', dict(desc, ranges=ranges))


def default_json(o):
    if isinstance(o, np.integer):
        return int(o)
    if isinstance(o, np.floating):
        return float(o)
    if isinstance(o, np.ndarray):
        return o.tolist()
    raise TypeError(type(o))


def round_trip(out, sim, desc, mech, rng):
    from panqec.config import CODES, ERROR_MODELS, DECODERS
    inp = json.loads(json.dumps(sim._inputs, default=default_json))
    out.count('round_trips')
    try:
        with contextlib.redirect_stdout(io.StringIO()):
            code = CODES[inp['code']['name']](**inp['code']['parameters'])
            em = ERROR_MODELS[inp['error_model']['name']](
                **inp['error_model']['parameters'])
            dp = dict(inp['decoder']['parameters'])
            dec = DECODERS[inp['decoder']['name']](code, em,
                                                   inp['error_rate'], **dp)
    except Exception as e:
        where = panqec_frame(e)
        out.violation(f'{mech}/round-trip-raises-{type(e).__name__}',
                      f're-instantiating from recorded inputs raised '
                      f'{type(e).__name__}: {e} at {where}',
                      dict(desc, inputs=inp))
        return
    w = dict(desc, inputs=inp)
    a, b = sim.code, code
    if type(a) is not type(b):
        out.violation(f'{mech}/round-trip-code-class/{type(a).__name__}',
                      f'recorded name {inp["code"]["name"]!r} re-creates a '
                      f'{type(b).__name__}, the simulation ran a '
                      f'{type(a).__name__}', w)
        return
    if a.n != b.n or gf2.pack_rows(a.stabilizer_matrix) != \
            gf2.pack_rows(b.stabilizer_matrix) or \
            not np.array_equal(a.logicals_x, b.logicals_x) or \
            not np.array_equal(a.logicals_z, b.logicals_z):
        out.violation(f'{mech}/round-trip-code-differs',
                      'code rebuilt from recorded inputs has different '
                      'H / logicals', w)
        return
    if inp['code'].get('n') != a.n or inp['code'].get('k') != a.k or \
            inp['code'].get('d') != int(a.d):
        out.violation(f'{mech}/recorded-n-k-d',
                      'n/k/d recorded in _inputs differ from the code', w)
    ta = sim.error_model.probability_distribution(a, sim.error_rate)
    tb = em.probability_distribution(b, inp['error_rate'])
    if any(not np.array_equal(x, y) for x, y in zip(ta, tb)):
        out.violation(f'{mech}/round-trip-noise-differs',
                      'error model rebuilt from recorded inputs gives a '
                      'different probability table', w)
    if type(dec) is not type(sim.decoder) or \
            repr(dec.params) != repr(sim.decoder.params):
        out.violation(f'{mech}/round-trip-decoder-differs',
                      f'decoder params {dec.params} vs {sim.decoder.params}',
                      w)
        return
    if type(dec).__name__ in ('MatchingDecoder', 'UnionFindDecoder',
                              'BeliefPropagationOSDDecoder') and a.n <= 60:
        for _ in range(3):
            e = (rng.random(2 * a.n) < 0.1).astype('uint8')
            s = a.measure_syndrome(e)
            with contextlib.redirect_stdout(io.StringIO()):
                c1 = np.asarray(sim.decoder.decode(s.copy()))
                c2 = np.asarray(dec.decode(s.copy()))
            if not np.array_equal(c1, c2):
                out.violation(f'{mech}/round-trip-decodes-differ',
                              'decoder rebuilt from recorded inputs decodes '
                              'differently', w)
                break


def check_registries(out):
    import panqec.codes as pc
    import panqec.decoders as pd
    import panqec.error_models as pe
    from panqec import config
    for regname, reg, mod in (('CODES', config.CODES, pc),
                              ('DECODERS', config.DECODERS, pd),
                              ('ERROR_MODELS', config.ERROR_MODELS, pe)):
        for key, val in list(reg.items()):
            if key.startswith('Pv'):
                continue        # this harness's own user-registered classes
            out.count('registry_keys_checked')
            desc = {'registry': regname, 'key': key}
            out.case(desc, True)
            if getattr(val, '__name__', None) != key:
                out.violation(f'registry/{regname}/{key}/wrong-class',
                              f'{regname}[{key!r}] is '
                              f'{getattr(val, "__name__", val)}', desc)
            elif getattr(mod, key, None) is not val:
                out.violation(f'registry/{regname}/{key}/not-exported-object',
                              f'{regname}[{key!r}] is not the object '
                              f'exported as {mod.__name__}.{key}', desc)
        # every exported code class is registered
        if regname == 'CODES':
            for nm in fam.ALL_CLASSES:
                if nm not in reg:
                    out.violation(f'registry/CODES/{nm}/missing',
                                  f'exported class {nm} is not registered',
                                  {'registry': regname, 'key': nm})
    # register_* files a class under its own name
    from panqec.codes import Toric2DCode
    from panqec.decoders import MatchingDecoder
    from panqec.error_models import PauliErrorModel

    class MyUserCode(Toric2DCode):
        pass

    class MyUserDecoder(MatchingDecoder):
        pass

    class MyUserNoise(PauliErrorModel):
        pass

    for fn, reg, cls in ((config.register_code, config.CODES, MyUserCode),
                         (config.register_decoder, config.DECODERS,
                          MyUserDecoder),
                         (config.register_error_model, config.ERROR_MODELS,
                          MyUserNoise)):
        before = dict(reg)
        fn(cls)
        out.count('registry_keys_checked')
        new = {k: v for k, v in reg.items() if k not in before or
               before[k] is not v}
        desc = {'registry': fn.__name__, 'class': cls.__name__,
                'new_keys': sorted(new)}
        out.case(desc, True, sample=desc)
        if reg.get(cls.__name__) is not cls:
            out.violation(f'registry/{fn.__name__}/wrong-key',
                          f'{fn.__name__}({cls.__name__}) filed the class '
                          f'under {sorted(new)} instead of its name', desc)
        for k in new:
            reg.pop(k, None)
        reg.update(before)


def check_reregistration(out):
    """A name resolves to the class registered under it WHEN the
    specification is expanded: expand, register another class under the same
    name (the edit-the-class-and-rerun workflow), expand the same spec."""
    import contextlib
    import io
    import tempfile
    from panqec import config
    from panqec.simulation import read_input_dict
    from panqec.codes import Toric2DCode, Planar2DCode
    from panqec.decoders import MatchingDecoder, UnionFindDecoder
    from panqec.error_models import PauliErrorModel

    def make(name, base):
        return type(name, (base,), {})
    plans = [
        ('code', config.register_code, config.CODES, 'MyReRegCode',
         [Toric2DCode, Planar2DCode, Toric2DCode]),
        ('decoder', config.register_decoder, config.DECODERS,
         'MyReRegDecoder', [MatchingDecoder, UnionFindDecoder]),
        ('error_model', config.register_error_model, config.ERROR_MODELS,
         'MyReRegNoise', [PauliErrorModel, PauliErrorModel]),
    ]
    for axis, fn, reg, name, bases in plans:
        before = dict(reg)
        try:
            for gen, base in enumerate(bases):
                cls = make(name, base)
                if axis == 'decoder':
                    cls.allowed_codes = None
                fn(cls)
                for form in ('dict', 'list'):
                    cp = [{'L_x': 3, 'L_y': 3}, {'L_x': 4, 'L_y': 4}] \
                        if form == 'dict' else [[3, 3], [4, 4]]
                    spec = {'ranges': {
                        'label': 'rereg',
                        'code': {'name': name if axis == 'code'
                                 else 'Toric2DCode', 'parameters': cp},
                        'error_model': {
                            'name': name if axis == 'error_model'
                            else 'PauliErrorModel',
                            'parameters': [{'r_x': 1 / 3, 'r_y': 1 / 3,
                                            'r_z': 1 / 3}]},
                        'decoder': {'name': name if axis == 'decoder'
                                    else 'MatchingDecoder',
                                    'parameters': {}},
                        'error_rate': [0.1, 0.2]}}
                    with tempfile.TemporaryDirectory() as td, \
                            contextlib.redirect_stdout(io.StringIO()):
                        batch = read_input_dict(
                            spec, os.path.join(td, 'o.json'), verbose=False)
                    sims = list(batch._simulations)
                    out.count('expansions_after_reregistration')
                    desc = {'axis': axis, 'name': name, 'generation': gen,
                            'base': base.__name__, 'form': form,
                            'simulations': len(sims)}
                    out.case(desc, gen > 0, sample=desc if gen == 1 else None)
                    if len(sims) != 4:
                        out.violation(
                            f'registry/re-registered-{axis}/count',
                            f'{len(sims)} simulations for 2 sizes x 2 rates',
                            desc)
                    attr = {'code': 'code', 'decoder': 'decoder',
                            'error_model': 'error_model'}[axis]
                    wrong = [type(getattr(sm, attr)).__mro__[1].__name__
                             for sm in sims
                             if type(getattr(sm, attr)) is not cls]
                    if wrong:
                        out.violation(
                            f'registry/re-registered-{axis}/stale-class',
                            f'{name!r} is registered as a {base.__name__} '
                            f'subclass but {len(wrong)} simulation(s) were '
                            f'built with another class ({wrong[0]} '
                            'subclass)', desc)
        finally:
            for k in list(reg):
                if k not in before:
                    reg.pop(k)
            reg.update(before)


def run_specs(task, out):
    rng = np.random.default_rng([task['seed'], 1313, task['i']])
    for j in range(task['n']):
        shape = str(rng.choice(['ranges', 'ranges', 'list', 'runs']))
        mech = f'spec/{shape}'
        try:
            if shape == 'ranges':
                ranges, ref = gen_ranges(rng)
                spec = {'comments': '', 'ranges': ranges}
                dkeys = {k for t in ref for k, _ in t[4]}
                desc = {'shape': shape, 'n_expected': len(ref),
                        'code': ranges['code']['name']}
                check_expand(out, ranges, ref, desc, mech)
                if rng.random() < 0.3:
                    ranges['method'] = {'name': 'splitting',
                                        'parameters': {'n_init_runs': 20}}
                    desc['method'] = 'splitting'
                    mech += '/splitting'
            elif shape == 'list':
                parts = [gen_ranges(rng) for _ in range(int(rng.integers(2, 4)))]
                for pt in parts:
                    if rng.random() < 0.3:
                        pt[0]['method'] = {'name': 'splitting',
                                           'parameters': {'n_init_runs': 20}}
                spec = {'ranges': [p[0] for p in parts]}
                ref = [t for p in parts for t in p[1]]
                dkeys = {k for t in ref for k, _ in t[4]}
                desc = {'shape': shape, 'n_expected': len(ref),
                        'code': [p[0]['code']['name'] for p in parts]}
                out.count('list_of_ranges_specs')
            else:
                ranges, ref0 = gen_ranges(rng)
                from_ref = []
                runs = []
                # explicit runs: scalar error rate, dict parameters
                cls = ranges['code']['name']
                for t in ref0[:int(rng.integers(1, 7))]:
                    c, s, e, d, dp, r = t
                    keys = ['L_x', 'L_y', 'L_z'][:len(s)]
                    emp = {'r_x': e[0], 'r_y': e[1], 'r_z': e[2]}
                    if e[3]:
                        emp['deformation_name'] = e[3]
                    if e[4] != '[]':
                        emp['deformation_kwargs'] = dict(eval(e[4]))
                    run = {'code': {'name': c,
                                    'parameters': dict(zip(keys, s))},
                           'error_model': {'name': 'PauliErrorModel',
                                           'parameters': emp},
                           'decoder': {'name': d, 'parameters': {
                               k: eval(v) for k, v in dp}},
                           'error_rate': r}
                    runs.append(run)
                    from_ref.append(t)
                spec = {'runs': runs}
                ref = from_ref
                dkeys = {k for t in ref for k, _ in t[4]}
                desc = {'shape': shape, 'n_expected': len(ref), 'code': cls}
                out.count('runs_form_specs')
            et = None
            if shape == 'list':
                nd = sum(len(pr) for pt, pr in parts if 'method' not in pt)
                ns = sum(len(pr) // max(1, len(pt['error_rate']))
                         for pt, pr in parts if 'method' in pt)
                et = (nd, ns)
            elif shape == 'ranges':
                et = (0, len(ref) // max(1, len(ranges['error_rate']))) \
                    if 'method' in ranges else (len(ref), 0)
            sims = check_spec(out, spec, ref, desc, mech, dkeys,
                              expected_types=et)
            if sims is not None and rng.random() < 0.5:
                # the same dict object expanded a second time
                check_spec(out, spec, ref, dict(desc, second_expansion=True),
                           mech + '/second-expansion-of-one-dict', dkeys,
                           spec_obj=check_spec.last_object)
                out.count('specifications_expanded_twice')
            from pv.common import digest
            out.case(dict(desc, digest=digest(spec)),
                     nontrivial=len(ref) >= 2,
                     sample=dict(desc, spec=spec) if j == 0 else None)
            if sims:
                for sim in sims[:int(rng.integers(1, 4))]:
                    round_trip(out, sim, desc, 'spec', rng)
        except Exception as e:
            where = panqec_frame(e)
            if where is None:
                raise
            out.violation(f'{mech}/raises-{type(e).__name__}',
                          f'{type(e).__name__}: {e} at {where}',
                          {'shape': shape})


def run_direct_roundtrips(task, out):
    """Simulations built by hand on EVERY exported class: the name recorded
    in _inputs must re-create the same class through the registry."""
    from panqec.simulation import DirectSimulation
    from panqec.error_models import PauliErrorModel
    from panqec.decoders import BeliefPropagationOSDDecoder
    rng = np.random.default_rng([task['seed'], 1314])
    for cls in fam.ALL_CLASSES:
        size = next(iter(fam.sizes_upto(cls, 2, minimum=2)), None) or \
            next(iter(fam.sizes_upto(cls, 3)))
        if cls == 'HollowRhombicCode':
            size = (2, 2, 3)
        for dn, kw in fam.deformations(cls)[:2]:
            code = fam.build(cls, size)
            em = PauliErrorModel(0.2, 0.3, 0.5, deformation_name=dn,
                                 deformation_kwargs=dict(kw) if kw else None)
            dec = BeliefPropagationOSDDecoder(code, em, 0.1, max_bp_iter=5)
            sim = DirectSimulation(code, em, dec, 0.1, verbose=False)
            desc = {'k': 'direct', 'cls': cls, 'size': list(size),
                    'noise_deformation': dn}
            out.case(desc, True)
            round_trip(out, sim, desc, f'direct/{cls}', rng)


def plan(tier, seed):
    tasks = [{'kind': 'registry', 'cost': 50}, {'kind': 'cli', 'cost': 300},
             {'kind': 'direct', 'seed': seed, 'cost': 400}]
    n = 400 if tier == 'quick' else 4000
    per = 25 if tier == 'quick' else 50
    for i in range(n // per):
        tasks.append({'kind': 'specs', 'i': i, 'n': per, 'seed': seed,
                      'cost': per * 40})
    return tasks


def run_cli(task, out):
    """Specifications as `panqec generate-input` writes them, lattice sides
    of one and two digits, read back and compared with the request."""
    from pv.checks import c19
    base = os.environ.get('PV_WORK') or tempfile.gettempdir()
    for cls, dim, dec, sizes in (
            ('Toric2DCode', 2, 'MatchingDecoder', ['8x8', '10x10', '12x14']),
            ('Planar2DCode', 2, 'BeliefPropagationOSDDecoder',
             ['3x3', '11', '4x10']),
            ('Toric3DCode', 3, 'BeliefPropagationOSDDecoder',
             ['2x2x2', '10x2x2', '2x3x12'])):
        for method in ('direct', 'splitting'):
            case = {'cls': cls, 'dim': dim, 'decoder': dec, 'sizes': sizes,
                    'bias': 'Z', 'etas': ['10', 'inf'], 'prob': '0.1,0.2',
                    'form': 'list', 'rates': [0.1, 0.2], 'deformation': None,
                    'method': method, 'label': None}
            c19.run_case(out, case, base)
            out.count('specs_written_by_generate_input')


def run_task(task, out):
    if task['kind'] == 'cli':
        run_cli(task, out)
        return
    if task['kind'] == 'registry':
        check_reregistration(out)
        check_registries(out)
    elif task['kind'] == 'direct':
        run_direct_roundtrips(task, out)
    else:
        run_specs(task, out)


def classify(v):
    return None


def replay(v, out):
    w = v['witness']
    if 'registry' in w:
        check_registries(out)
    elif w.get('k') == 'direct':
        run_direct_roundtrips({'seed': v.get('seed', 0)}, out)
    elif 'spec' in w:
        spec = w['spec']
        print('replay: re-parsing the recorded specification')
        from panqec.simulation import read_input_dict
        b = read_input_dict(json.loads(json.dumps(spec)), '/tmp/c13-replay.json',
                            verbose=False)
        print(len(b._simulations), 'simulations built')
        for s in b._simulations:
            print(' ', type(s.code).__name__, s.code.size,
                  s.error_model.params, type(s.decoder).__name__,
                  s.decoder.params, s.error_rate)
    else:
        print('replay: re-run ./check C13')
