"""C09 — matching is exactly minimum-weight; correctable sets are corrected.

Oracle A (optimality): on lattices with <= 20 qubits the complete coset
structure of each sector is tabulated (all 2^n flip patterns -> syndrome ->
minimum total log-likelihood weight under the REFERENCE channel's marginals);
MatchingDecoder's answer for every valid sector syndrome must reproduce the
syndrome and have weight <= minimum + slack.
Oracle B (t-correctability): every Pauli error of weight <= floor((d-1)/2),
all supports and all X/Y/Z letterings, must end in the stabilizer group
(own membership test) for MatchingDecoder on toric / planar / rotated-planar
and UnionFindDecoder on toric.
Oracle C: every single-qubit Pauli on the sweep-match decoders' home
lattices.
"""
from __future__ import annotations

import itertools
import math

import numpy as np

from pv import gf2
from pv import families as fam
from pv.common import panqec_frame
from pv.checks.c07 import ref_channel

PROPERTY = 'C09'
LEVEL = 'exploration'
TECHNIQUE = ('runtime monitoring: decode() outputs judged against an '
             'exhaustively tabulated coset minimum (own arithmetic, '
             'reference-channel weights) and against own stabilizer-group '
             'membership for complete low-weight error sets')
MANIFEST_TEXT = ('Optimality: all valid sector syndromes on every <=20-qubit '
                 '2-D lattice, for depolarising / biased / skew / deformed '
                 'noise at several rates, vs the true coset minimum. '
                 'Correctability: complete enumeration of weight<=t Pauli '
                 'errors (all letterings) per lattice size up to the bound, '
                 'for matching and union-find; all single-qubit Paulis for '
                 'the sweep-match decoders. Exhaustive per listed block.')
MANIFEST_NOTE = ('Trusted: pv/gf2.py, numpy bit arithmetic. Slack 1e-6*sum|w| '
                 'for pymatching\'s weight discretisation. Period-2 tori are '
                 'excluded for union-find (C05 known finding).')
RULE = ('case = one decode of one syndrome / one enumerated error; distinct '
        'by (decoder, lattice, noise, syndrome-or-error); non-trivial = '
        'non-zero syndrome / non-identity error')
ASSUMPTIONS = ['supported size family = pv/families.py',
               'd(toric/planar/rotated planar 2-D) = min(L_x, L_y) (checked '
               'by C17)']
REQUIRED_COUNTERS = ['optimality_syndromes_checked', 'coset_tables_built',
                     'low_weight_errors_decoded', 'uf_errors_decoded',
                     'sweepmatch_single_qubit_errors',
                     'deformed_weight_configs', 'uf_weight3_compact_errors',
                     'matching_setups_one_sector_or_explicit_weights',
                     'syndromes_given_in_another_dtype',
                     'user_defined_noise_models',
                     'corrections_judged_after_the_batch',
                     'sweepmatch_runs_with_non_default_budget',
                     'weight_configs_with_impossible_qubits',
                     'sweepmatch_decoders_set_up_with_other_noise']
SHARD_TIMEOUT = {'quick': 900, 'thorough': 5400}
EXHAUSTIVE = True
EXHAUSTIVE_SCOPE = ('per (decoder, lattice) block listed in '
                    'coverage.complete_blocks: all weight<=t errors / all '
                    'valid sector syndromes')

NOISES_A = {
    'depol': (1 / 3, 1 / 3, 1 / 3),
    'biasZ3': (0.125, 0.125, 0.75),
    'biasX8': (0.8, 0.1, 0.1),
    'skew': (0.5, 0.3, 0.2),
    'nearZ': (0.01, 0.01, 0.98),
    'pureZ': (0.0, 0.0, 1.0),
    'pureX': (1.0, 0.0, 0.0),
}


def small_2d():
    out = []
    for cls in ('Toric2DCode', 'Planar2DCode', 'RotatedPlanar2DCode'):
        for s in fam.sizes_upto(cls, 6, minimum=2):
            try:
                n = fam.build(cls, s).n
            except Exception:
                continue
            if n <= 20:
                out.append((cls, s, n))
    return out


def plan(tier, seed):
    tasks = []
    # ---- A: optimality ---------------------------------------------------
    for cls, s, n in small_2d():
        if tier == 'quick' and n > 16 and s[0] != s[1]:
            continue
        tasks.append({'kind': 'opt', 'cls': cls, 'size': list(s), 'n': n,
                      'tier': tier, 'seed': seed,
                      'cost': (2 ** n) / 40 + 600})
    # ---- B: t-correctability ----------------------------------------------
    sizes_q = [(2, 2), (2, 3), (3, 2), (3, 3), (3, 4), (4, 3), (4, 4), (5, 5),
               (3, 5), (5, 3), (4, 5), (6, 6)]
    sizes_t = sizes_q + [(5, 4), (5, 7), (7, 5), (5, 6), (6, 5), (7, 7),
                         (3, 8), (8, 3)]
    for cls in ('Toric2DCode', 'Planar2DCode', 'RotatedPlanar2DCode'):
        for s in (sizes_q if tier == 'quick' else sizes_t):
            t = (min(s) - 1) // 2
            n = {'Toric2DCode': 2 * s[0] * s[1],
                 'Planar2DCode': s[0] * s[1] + (s[0] - 1) * (s[1] - 1),
                 'RotatedPlanar2DCode': s[0] * s[1]}[cls]
            for w in range(1, t + 1):
                full = w <= 2
                cnt = math.comb(n, w) * (3 ** w if full else 3)
                nch = max(1, min(32, cnt // 20000))
                for c in range(nch):
                    tasks.append({'kind': 'corr', 'decoder': 'MatchingDecoder',
                                  'cls': cls, 'size': list(s), 'w': w,
                                  'full': full, 'chunk': c, 'nchunks': nch,
                                  'stride': 1, 'seed': seed,
                                  'cost': cnt * 0.4 / nch + 300})
    uf_sizes = [(3, 3), (3, 4), (4, 4), (5, 5)] if tier == 'quick' else \
        [(3, 3), (3, 4), (4, 3), (4, 4), (3, 5), (5, 5), (5, 6)]
    for s in uf_sizes:
        t = (min(s) - 1) // 2
        n = 2 * s[0] * s[1]
        for w in range(1, t + 1):
            cnt = math.comb(n, w) * 3 ** w
            stride = 1
            if tier == 'quick' and cnt > 5000:
                stride = cnt // 4000
            nch = max(1, min(32, cnt // stride // 400))
            for c in range(nch):
                tasks.append({'kind': 'corr', 'decoder': 'UnionFindDecoder',
                              'cls': 'Toric2DCode', 'size': list(s), 'w': w,
                              'full': True, 'chunk': c, 'nchunks': nch,
                              'stride': stride, 'seed': seed,
                              'cost': cnt / stride * 20 / nch + 300})
    # ---- B': union-find at t = 3: compact weight-3 errors on 7x7 -----------
    nch = 4 if tier == 'quick' else 16
    for c in range(nch):
        tasks.append({'kind': 'compact3', 'decoder': 'UnionFindDecoder',
                      'cls': 'Toric2DCode', 'size': [7, 7], 'chunk': c,
                      'nchunks': nch, 'stride': 6 if tier == 'quick' else 1,
                      'seed': seed, 'cost': 9000})
    # ---- C: sweep-match single-qubit ---------------------------------------
    sm = [('SweepMatchDecoder', 'Toric3DCode', (3, 3, 3)),
          ('SweepMatchDecoder', 'Toric3DCode', (3, 4, 3)),
          ('RotatedSweepMatchDecoder', 'RotatedPlanar3DCode', (3, 3, 3)),
          ('RotatedSweepMatchDecoder', 'RotatedPlanar3DCode', (4, 4, 3))]
    if tier == 'thorough':
        sm += [('SweepMatchDecoder', 'Toric3DCode', (4, 4, 4)),
               ('SweepMatchDecoder', 'Toric3DCode', (3, 3, 5)),
               ('SweepMatchDecoder', 'Toric3DCode', (4, 3, 5)),
               ('RotatedSweepMatchDecoder', 'RotatedPlanar3DCode', (5, 5, 3)),
               ('RotatedSweepMatchDecoder', 'RotatedPlanar3DCode', (3, 4, 4)),
               ('RotatedSweepMatchDecoder', 'RotatedPlanar3DCode', (4, 5, 5))]
    for dname, cls, s in sm:
        n = fam.n_estimate(cls, s)
        nch = 4 if n > 100 else 1
        for c in range(nch):
            tasks.append({'kind': 'single', 'decoder': dname, 'cls': cls,
                          'size': list(s), 'chunk': c, 'nchunks': nch,
                          'seed': seed,
                          'cost': 3 * n * (60 if 'Rotated' in dname else 25)
                          / nch + 300})
    return tasks


# ---------------------------------------------------------------- oracle A

def coset_minimum(Hrows, w, n):
    """For every flip pattern in {0,1}^n: syndrome (int) and weight; returns
    dict syndrome -> minimum weight (numpy, vectorised over 2^n patterns)."""
    N = 1 << n
    pat = np.arange(N, dtype=np.uint32)
    weight = np.zeros(N)
    for i in range(n):
        weight += w[i] * ((pat >> np.uint32(i)) & 1)
    syn = np.zeros(N, dtype=np.uint32)
    for r, mask in enumerate(Hrows):
        v = pat & np.uint32(mask)
        # parity of v
        v ^= v >> np.uint32(16)
        v ^= v >> np.uint32(8)
        v ^= v >> np.uint32(4)
        v ^= v >> np.uint32(2)
        v ^= v >> np.uint32(1)
        syn |= (v & np.uint32(1)) << np.uint32(r)
    order = np.lexsort((weight, syn))
    syn_s, w_s = syn[order], weight[order]
    first = np.ones(N, dtype=bool)
    first[1:] = syn_s[1:] != syn_s[:-1]
    return dict(zip(syn_s[first].tolist(), w_s[first].tolist()))


def user_model(kind, direction, n):
    """A user's noise model with qubit-dependent rates (all flip marginals
    below 1/2)."""
    from panqec.error_models import PauliErrorModel, BaseErrorModel
    scale = np.random.default_rng([n, len(kind)]).uniform(0.2, 1.8, size=n)

    def table(rx, ry, rz, rate):
        px, py, pz = (rate * r * scale for r in (rx, ry, rz))
        return 1 - px - py - pz, px, py, pz

    if kind == 'user-pauli-subclass':
        class DriftingPauliNoise(PauliErrorModel):
            def probability_distribution(self, code, error_rate):
                return table(*self.direction, error_rate)
        return DriftingPauliNoise(*direction)

    class DriftingNoise(BaseErrorModel):
        label = 'drifting'
        params = {}

        def generate(self, code, error_rate, rng=None):
            raise NotImplementedError

        def probability_distribution(self, code, error_rate):
            return table(*direction, error_rate)
    return DriftingNoise()


def run_opt(task, out):
    from panqec.decoders import MatchingDecoder
    from panqec.error_models import PauliErrorModel
    cls, size = task['cls'], tuple(task['size'])
    code = fam.build(cls, size)
    n = code.n
    xi = np.asarray(code.x_indices)
    zi = np.asarray(code.z_indices)
    Hx = gf2.pack_rows(code.Hx)       # detects Z flips
    Hz = gf2.pack_rows(code.Hz)       # detects X flips
    x_rows = np.where(xi)[0]
    z_rows = np.where(zi)[0]
    m = code.n_stabilizers
    tier = task['tier']
    configs = []
    rates = [0.05, 0.2] if tier == 'quick' else [0.02, 0.05, 0.1, 0.2, 0.3]
    for nm, d in NOISES_A.items():
        for nd in fam.deformations(cls):
            if nd[0] is not None and nm == 'depol':
                continue
            if nm in ('pureZ', 'pureX') and nd[0] != 'XZZX':
                continue        # zeros in PART of a sector need XZZX
            if tier == 'quick' and nd[1] and nm not in ('biasZ3', 'pureZ'):
                continue
            for p in rates:
                if tier == 'quick' and p == 0.2 and nm not in ('depol',
                                                               'biasZ3'):
                    continue
                configs.append((nm, d, nd, p))
    # noise models written by a user (the documented extension point):
    # qubit-dependent rates, as a subclass of PauliErrorModel that overrides
    # probability_distribution and as a model built on BaseErrorModel
    configs.append(('user-pauli-subclass', (1 / 3, 1 / 3, 1 / 3),
                    (None, {}), rates[0]))
    configs.append(('user-base-subclass', (0.2, 0.2, 0.6), (None, {}),
                    rates[0]))
    for nm, direction, (ndn, ndk), p in configs:
        em = PauliErrorModel(*direction, deformation_name=ndn,
                             deformation_kwargs=dict(ndk) if ndk else None)
        ref = ref_channel(code, cls, direction, p, ndn, ndk)
        if nm.startswith('user-'):
            em = user_model(nm, direction, n)
            ref = np.stack(em.probability_distribution(code, p), axis=1)
            out.count('user_defined_noise_models')
        qx = ref[:, 1] + ref[:, 2]
        qz = ref[:, 3] + ref[:, 2]
        if max(qx.max(), qz.max()) >= 0.5:
            continue
        # qubits that cannot flip in a sector carry infinite weight: my
        # reference gives them BIG, so a correction through one of them is
        # never of minimum weight while a possible correction exists
        BIG = 1e6
        has_zero = bool(min(qx.min(), qz.min()) <= 0)
        if has_zero:
            out.count('weight_configs_with_impossible_qubits')
        with np.errstate(divide='ignore'):
            wx = np.where(qx > 0, np.log((1 - qx) / np.where(qx > 0, qx, 1)),
                          BIG)
            wz = np.where(qz > 0, np.log((1 - qz) / np.where(qz > 0, qz, 1)),
                          BIG)
        desc = {'cls': cls, 'size': list(size), 'noise': nm,
                'noise_def': [ndn, ndk], 'rate': p}
        mech = f'MatchingDecoder/{cls}' + ('/deformed-noise' if ndn else '')
        if ndn:
            out.count('deformed_weight_configs')
        # the decoder in each way it can be set up: both sectors, one sector
        # only (error_type), or with the weights handed over explicitly
        wrng = np.random.default_rng([int(p * 1000), len(nm), n])
        ewx = wrng.uniform(0.2, 3.0, size=n)
        ewz = wrng.uniform(0.2, 3.0, size=n)
        try:
            decs = {None: MatchingDecoder(code, em, p),
                    'X': MatchingDecoder(code, em, p, error_type='X'),
                    'Z': MatchingDecoder(code, em, p, error_type='Z'),
                    'explicit': MatchingDecoder(code, em, p,
                                                weights=(ewx, ewz)),
                    'explicit-X': MatchingDecoder(code, em, p, error_type='X',
                                                  weights=(ewx, ewz)),
                    'explicit-Z': MatchingDecoder(code, em, p, error_type='Z',
                                                  weights=(ewx, ewz))}
        except Exception as e:
            where = panqec_frame(e)
            if where is None:
                raise
            out.violation(f'{mech}/construct-raises-{type(e).__name__}',
                          f'{e} at {where}', desc)
            continue
        runs = []
        for sector, Hrows, w, ew, rows, lo in (('X', Hz, wx, ewx, z_rows, 0),
                                               ('Z', Hx, wz, ewz, x_rows, n)):
            runs.append((sector, Hrows, w, rows, lo, None))
            runs.append((sector, Hrows, w, rows, lo, sector))
            if p == rates[0]:
                runs.append((sector, Hrows, ew, rows, lo, 'explicit'))
                runs.append((sector, Hrows, ew, rows, lo,
                             'explicit-' + sector))
        tables = {}
        for sec, Hrows, w, rows, lo, setup in runs:
            dec = decs[setup]
            sector = sec if setup is None else f'{sec}/setup-{setup}'
            if setup is not None:
                out.count('matching_setups_one_sector_or_explicit_weights')
            tk = (sec, setup is not None and setup.startswith('explicit'))
            if tk not in tables:
                tables[tk] = coset_minimum(Hrows, w, n)
            table = tables[tk]
            out.count('coset_tables_built')
            slack = 1e-6 * float(np.sum(np.abs(w[w < BIG / 2])))
            synds = sorted(table)
            checked = 0
            for s_sec in synds:
                s = np.zeros(m, dtype='uint8')
                for b, r in enumerate(rows):
                    s[r] = (s_sec >> b) & 1
                c = np.asarray(dec.decode(s))
                part = c[lo:lo + n].astype(np.int64)
                other = c[n - lo:2 * n - lo]
                cw = float(np.dot(w, part))
                cpat = gf2.pack(part)
                got_syn = 0
                for b, mask in enumerate(Hrows):
                    got_syn |= (gf2.popcount(cpat & mask) & 1) << b
                out.count('optimality_syndromes_checked')
                checked += 1
                wit = dict(desc, sector=sec, sector_syndrome=s_sec,
                           correction=part, setup=setup)
                if got_syn != s_sec:
                    out.violation(f'{mech}/sector-{sector}/wrong-syndrome',
                                  'correction does not reproduce the sector '
                                  'syndrome', wit)
                    break
                if np.any(other):
                    out.violation(f'{mech}/sector-{sector}/other-sector-'
                                  'touched', 'correction acts in the other '
                                  'sector although its syndrome is zero', wit)
                    break
                if table[s_sec] >= BIG / 2:
                    continue    # no possible correction for this syndrome
                if cw > table[s_sec] + slack:
                    out.violation(
                        f'{mech}/sector-{sector}/not-minimum-weight',
                        f'correction weight {cw:.6f} > coset minimum '
                        f'{table[s_sec]:.6f} (noise {nm}, p={p}, '
                        f'deformation {ndn} {ndk})', wit)
                    break
            out.case(dict(desc, sector=sec, setup=setup), True, n=checked,
                     distinct=max(0, checked - 1),
                     sample=dict(desc, sector=sec, syndromes=checked)
                     if sector == 'X' and nm == 'skew' else None)
    out.extra.setdefault('complete_blocks', []).append(
        f'optimality:{cls}{size}:n={n}:{len(configs)} noise configs')


# ---------------------------------------------------------------- oracle B

SYN_DTYPES = ['uint8', 'int64', 'bool', 'int32', 'uint8']


def errors_of_weight(n, w, full):
    """Yield packed BSF ints: all supports of size w; all 3^w letterings if
    full, else the three uniform letterings."""
    if full:
        letterings = list(itertools.product((1, 2, 3), repeat=w))
    else:
        letterings = [(1,) * w, (2,) * w, (3,) * w]
    for sup in itertools.combinations(range(n), w):
        for let in letterings:
            e = 0
            for q, a in zip(sup, let):
                if a in (1, 2):
                    e |= 1 << q
                if a in (3, 2):
                    e |= 1 << (n + q)
            yield e


def make_decoder(dname, code, p=0.1, _noise=(1 / 3, 1 / 3, 1 / 3), **options):
    from panqec.error_models import PauliErrorModel
    from pv.checks.c05 import decoder_classes
    em = PauliErrorModel(*_noise)
    return decoder_classes()[dname](code, em, p, **options)


def run_corr(task, out):
    cls, size = task['cls'], tuple(task['size'])
    code = fam.build(cls, size)
    n = code.n
    H = gf2.pack_rows(code.stabilizer_matrix)
    ech = gf2.Echelon(H)
    dec = make_decoder(task['decoder'], code)
    desc = {'decoder': task['decoder'], 'cls': cls, 'size': list(size),
            'w': task['w'], 'full': task['full']}
    mech = f"{task['decoder']}/{cls}/weight-{task['w']}"
    cnt = fails = 0
    stride, c, nch = task['stride'], task['chunk'], task['nchunks']
    off = (task['seed'] * 13) % stride
    m = len(H)
    batch = []

    def judge_batch(batch):
        bad = 0
        for e, corr in batch:
            out.count('corrections_judged_after_the_batch')
            resid = e ^ gf2.pack(np.asarray(corr))
            if not ech.contains(resid):
                bad += 1
                op = code.from_bsf(gf2.unpack(e, 2 * n))
                out.violation(
                    f'{mech}/not-corrected',
                    f'weight-{task["w"]} error {op} '
                    f'(t={(min(size) - 1) // 2}) is not returned to the '
                    'stabilizer group by the correction decoded for it '
                    '(corrections read after the batch)',
                    dict(desc, error=gf2.unpack(e, 2 * n),
                         operator={str(k): v for k, v in op.items()}))
        del batch[:]
        return bad
    for idx, e in enumerate(errors_of_weight(n, task['w'], task['full'])):
        if idx % stride != off or (idx // stride) % nch != c:
            continue
        s = gf2.unpack(gf2.syndrome_int(H, e, n), m).astype(
            SYN_DTYPES[idx % len(SYN_DTYPES)])
        if s.dtype != np.uint8:
            out.count('syndromes_given_in_another_dtype')
        try:
            corr = dec.decode(s)
        except Exception as ex:
            where = panqec_frame(ex)
            if where is None:
                raise
            out.violation(f'{mech}/raises-{type(ex).__name__}',
                          f'{type(ex).__name__}: {ex} at {where}',
                          dict(desc, error=gf2.unpack(e, 2 * n)))
            fails += 1
            continue
        cnt += 1
        # corrections are collected (the returned objects themselves) and
        # evaluated once the batch has been decoded, as a caller doing
        # [decoder.decode(s) for s in syndromes] would
        batch.append((e, corr))
        if len(batch) < 48:
            continue
        fails += judge_batch(batch)
    fails += judge_batch(batch)
    key = 'uf_errors_decoded' if task['decoder'] == 'UnionFindDecoder' \
        else 'low_weight_errors_decoded'
    out.count(key, cnt)
    out.case(dict(desc, chunk=c), True, n=cnt, distinct=cnt,
             sample=dict(desc, errors=cnt, failures=fails) if c == 0 else None)
    if stride == 1 and c == 0:
        out.extra.setdefault('complete_blocks', []).append(
            f"correctability:{task['decoder']}:{cls}{size}:weight={task['w']}:"
            f"{'all letterings' if task['full'] else 'uniform letterings'}")


# ---------------------------------------------------------------- oracle C

def run_single(task, out):
    cls, size = task['cls'], tuple(task['size'])
    code = fam.build(cls, size)
    n = code.n
    H = gf2.pack_rows(code.stabilizer_matrix)
    m = len(H)
    ech = gf2.Echelon(H)
    desc = {'decoder': task['decoder'], 'cls': cls, 'size': list(size)}
    mech = f"{task['decoder']}/{cls}/single-qubit"
    cnt = 0
    # the decoder with its default options and with the smallest budgets its
    # constructor offers (one round / sweep factor 1 already corrects every
    # single-qubit error)
    option_sets = [{}]
    if task['decoder'] == 'RotatedSweepMatchDecoder':
        option_sets += [{'max_rounds': 1}, {'max_rounds': 2}]
    # the statement is about every single-qubit Pauli error, whatever noise
    # model the decoder was set up with (a Z-biased study still meets X's)
    option_sets += [{'_noise': (0.0, 0.0, 1.0)}, {'_noise': (1.0, 0.0, 0.0)},
                    {'_noise': (0.05, 0.05, 0.9)}]
    for options in option_sets:
        dec = make_decoder(task['decoder'], code, **options)
        omech = mech + (f"/{'+'.join(f'{k}={v}' for k, v in options.items())}"
                        if options else '')
        if '_noise' in options:
            out.count('sweepmatch_decoders_set_up_with_other_noise')
        elif options:
            out.count('sweepmatch_runs_with_non_default_budget')
        for idx, e in enumerate(errors_of_weight(n, 1, True)):
            if idx % task['nchunks'] != task['chunk']:
                continue
            s = gf2.unpack(gf2.syndrome_int(H, e, n), m).astype(
                SYN_DTYPES[idx % len(SYN_DTYPES)])
            if s.dtype != np.uint8:
                out.count('syndromes_given_in_another_dtype')
            try:
                corr = np.asarray(dec.decode(s))
            except Exception as ex:
                where = panqec_frame(ex)
                if where is None:
                    raise
                out.violation(f'{omech}/raises-{type(ex).__name__}',
                              f'{type(ex).__name__}: {ex} at {where}', desc)
                continue
            cnt += 1
            out.count('sweepmatch_single_qubit_errors')
            if not ech.contains(e ^ gf2.pack(corr)):
                op = code.from_bsf(gf2.unpack(e, 2 * n))
                letter = list(op.values())[0]
                out.violation(f'{omech}/not-corrected/{letter}',
                              f'single-qubit error {op} is not corrected',
                              dict(desc, options=options,
                                   operator={str(k): v
                                             for k, v in op.items()}))
    out.case(dict(desc, chunk=task['chunk']), True, n=cnt, distinct=cnt,
             sample=dict(desc, errors=cnt) if task['chunk'] == 0 else None)
    if task['chunk'] == 0:
        out.extra.setdefault('complete_blocks', []).append(
            f"single-qubit:{task['decoder']}:{cls}{size}")


def run_compact3(task, out):
    """Weight-3 errors (t = 3 on the 7x7 torus) whose three qubits pairwise
    share a stabilizer -- the patterns that put several defects under one
    node of a union-find peeling tree -- in the X-only, Z-only and Y-only
    letterings."""
    cls, size = task['cls'], tuple(task['size'])
    code = fam.build(cls, size)
    n = code.n
    H = gf2.pack_rows(code.stabilizer_matrix)
    m = len(H)
    ech = gf2.Echelon(H)
    dec = make_decoder(task['decoder'], code)
    mask = (1 << n) - 1
    nb = [set() for _ in range(n)]        # qubits sharing a stabilizer
    for h in H:
        sup = [i for i in range(n) if ((h | (h >> n)) >> i) & 1]
        for a in sup:
            nb[a].update(sup)
    triples = set()
    for a in range(n):
        for b in nb[a]:
            if b <= a:
                continue
            for c in nb[a] | nb[b]:
                if c > b and (c in nb[a] or c in nb[b]):
                    triples.add((a, b, c))
    triples = sorted(triples)
    desc = {'decoder': task['decoder'], 'cls': cls, 'size': list(size),
            'k': 'compact-weight-3'}
    mech = f"{task['decoder']}/{cls}/weight-3-compact"
    cnt = 0
    idx = 0
    off = task['seed'] % task['stride']
    for tr in triples:
        for let in (1, 2, 3):
            idx += 1
            if idx % task['stride'] != off or \
                    (idx // task['stride']) % task['nchunks'] != \
                    task['chunk']:
                continue
            e = 0
            for q in tr:
                if let in (1, 2):
                    e |= 1 << q
                if let in (3, 2):
                    e |= 1 << (n + q)
            s = gf2.unpack(gf2.syndrome_int(H, e, n), m)
            try:
                corr = np.asarray(dec.decode(s))
            except Exception as ex:
                where = panqec_frame(ex)
                if where is None:
                    raise
                out.violation(f'{mech}/raises-{type(ex).__name__}',
                              f'{type(ex).__name__}: {ex} at {where} on '
                              f'{code.from_bsf(gf2.unpack(e, 2 * n))}',
                              dict(desc, error=gf2.unpack(e, 2 * n)))
                continue
            cnt += 1
            if not ech.contains(e ^ gf2.pack(corr)):
                op = code.from_bsf(gf2.unpack(e, 2 * n))
                out.violation(f'{mech}/not-corrected',
                              f'weight-3 error {op} (t=3) is not corrected',
                              dict(desc, error=gf2.unpack(e, 2 * n)))
    out.count('uf_errors_decoded', cnt)
    out.count('uf_weight3_compact_errors', cnt)
    out.case(dict(desc, chunk=task['chunk']), True, n=cnt, distinct=cnt,
             sample=dict(desc, errors=cnt, triples=len(triples))
             if task['chunk'] == 0 else None)


def run_task(task, out):
    {'opt': run_opt, 'corr': run_corr, 'single': run_single,
     'compact3': run_compact3}[task['kind']](task, out)


def classify(v):
    return None


def replay(v, out):
    w = v['witness']
    if 'sector' in w:
        run_opt({'cls': w['cls'], 'size': w['size'], 'tier': 'thorough',
                 'seed': 0}, out)
    elif 'w' in w:
        run_corr({'decoder': w['decoder'], 'cls': w['cls'], 'size': w['size'],
                  'w': w['w'], 'full': w['full'], 'chunk': 0, 'nchunks': 1,
                  'stride': 1, 'seed': 0}, out)
    else:
        run_single({'decoder': w['decoder'], 'cls': w['cls'],
                    'size': w['size'], 'chunk': 0, 'nchunks': 1}, out)
