"""C18 — error probabilities multiply per qubit and normalise.

Monitors:
  * error_probability(e, code, p, log_output) return values vs the product
    over qubits of a reference channel (C07's, written from the statement);
  * sum over ALL 4^n errors == 1 for every family code with n <= 6;
  * log form == log of the plain form; consistency with the sampler: the
    probability equals the product of the CDF-interval lengths a scripted
    variate sequence must hit to generate that error;
  * Metropolis step of the real SplittingSimulation: every acceptance
    probability handed to the random choice equals
    exp(min(0, log P_ref(new) - log P_ref(old))).
"""
from __future__ import annotations

import contextlib
import io
import math

import numpy as np

from pv import gf2
from pv import families as fam
from pv.common import panqec_frame
from pv.checks.c07 import ref_channel

PROPERTY = 'C18'
LEVEL = 'exploration'
TECHNIQUE = ('runtime monitoring: reference-model oracle on every '
             'error_probability return value (direct calls and calls '
             'intercepted inside real SplittingSimulation runs, together '
             'with the acceptance probabilities), exhaustive normalisation '
             'sums on n<=6 codes')
MANIFEST_TEXT = ('All 4^n errors of every family code with n<=6 (deformed or '
                 'not) under directions covering faces, vertices and the '
                 'interior of the simplex are summed and compared one by one '
                 'with the reference product; random errors on larger codes; '
                 'the Metropolis acceptance probabilities of real splitting '
                 'runs are intercepted and recomputed.')
MANIFEST_NOTE = ('Trusted: reference channel formula, math.log. Relative '
                 'tolerance 1e-9 on probabilities, 1e-9 absolute on logs.')
RULE = ('case = one error_probability evaluation or one Metropolis step; '
        'distinct by (code, noise, rate, error); non-trivial = error != 0')
ASSUMPTIONS = ['supported size family = pv/families.py']
REQUIRED_COUNTERS = ['chain_end_states_compared', 'user_model_tables',
                     'normalisation_sums_after_decoding',
                     'errors_given_in_another_representation',
                     'splitting_runs_with_rates_not_descending',
                     'log_forms_on_large_dense_errors',
                     'probabilities_compared', 'normalisation_sums',
                     'metropolis_steps_observed',
                     'metropolis_moves_on_occupied_qubit', 'log_form_compared',
                     'errors_with_Y']

DIRS = [(1 / 3, 1 / 3, 1 / 3), (0.5, 0.3, 0.2), (0.0, 1.0, 0.0),
        (1.0, 0.0, 0.0), (0.0, 0.0, 1.0), (0.2, 0.6, 0.2), (0.0, 0.4, 0.6),
        (0.7, 0.0, 0.3), (0.45, 0.55, 0.0), (0.05, 0.05, 0.9)]
# components given as Python ints beside floats (what a JSON input with
# "r_z": 0 produces): the number type must not change the channel (round 7)
MIXED_DIRS = [(0.5, 0.5, 0), (0, 0.1, 0.9), (0.5, 0, 0.5), (1, 0, 0)]


def ref_prob(tab, e, n):
    pr = 1.0
    for i in range(n):
        x = (e >> i) & 1
        z = (e >> (n + i)) & 1
        col = 0 if not (x or z) else (1 if x and not z else (2 if x and z
                                                            else 3))
        pr *= tab[i, col]
    return pr


def ref_logprob(tab, e, n):
    s = 0.0
    for i in range(n):
        x = (e >> i) & 1
        z = (e >> (n + i)) & 1
        col = 0 if not (x or z) else (1 if x and not z else (2 if x and z
                                                            else 3))
        v = tab[i, col]
        if v <= 0:
            return -math.inf
        s += math.log(v)
    return s


def small_codes():
    out = []
    for cls in fam.ALL_CLASSES:
        for s in fam.sizes_upto(cls, 3):
            if fam.n_estimate(cls, s) > 40:
                continue
            try:
                n = fam.build(cls, s).n
            except Exception:
                continue
            if 1 <= n <= 6:
                out.append((cls, s, n))
    return out


ERROR_FORMS = ['uint8', 'int64', 'bool', 'list-int', 'list-bool', 'float64']


def as_error(e_int, n, form):
    e = gf2.unpack(e_int, 2 * n)
    if form == 'list-int':
        return [int(x) for x in e]
    if form == 'list-bool':
        return [bool(x) for x in e]
    return e.astype(form)


def compare_one(out, em, code, tab, e_int, desc, mech):
    n = code.n
    form = ERROR_FORMS[(e_int % 7 + gf2.weight(e_int, n)) % len(ERROR_FORMS)]
    e = as_error(e_int, n, form)
    if form != 'uint8':
        out.count('errors_given_in_another_representation')
        desc = dict(desc, error_form=form)
    got = float(em.error_probability(e, code, desc['p'], log_output=False))
    ref = ref_prob(tab, e_int, n)
    out.count('probabilities_compared')
    if gf2.popcount(e_int & (e_int >> n) & ((1 << n) - 1)):
        out.count('errors_with_Y')
    ok = True
    if abs(got - ref) > 1e-9 * max(ref, 1e-300) + 1e-300:
        ok = False
        nI = n - gf2.weight(e_int, n)
        out.violation(f'{mech}/probability',
                      f'error_probability={got!r} but product of per-qubit '
                      f'channel probabilities={ref!r} (error has {nI} '
                      f'identity qubits)',
                      dict(desc, error=e))
    gl = float(em.error_probability(e, code, desc['p'], log_output=True))
    rl = ref_logprob(tab, e_int, n)
    out.count('log_form_compared')
    if (math.isinf(rl) != math.isinf(gl)) or \
            (not math.isinf(rl) and abs(gl - rl) > 1e-9 * max(1, abs(rl))):
        ok = False
        out.violation(f'{mech}/log-probability',
                      f'log error_probability={gl!r} but reference={rl!r}',
                      dict(desc, error=e))
    return got, ok


def run_small(task, out):
    from panqec.error_models import PauliErrorModel
    cls, size = task['cls'], tuple(task['size'])
    code = fam.build(cls, size)
    n = code.n
    for dn, kw in fam.deformations(cls):
        for direction in task['dirs']:
            for p in task['rates']:
                em = PauliErrorModel(*direction, deformation_name=dn,
                                     deformation_kwargs=dict(kw) if kw
                                     else None)
                tab = ref_channel(code, cls, direction, p, dn, kw)
                desc = {'cls': cls, 'size': list(size), 'direction':
                        list(direction), 'p': p, 'noise_deformation': dn,
                        'kwargs': kw}
                mech = 'error_probability' + ('/deformed' if dn else '')
                total = 0.0
                bad = 0
                try:
                    for e_int in range(4 ** n):
                        got, ok = compare_one(out, em, code, tab, e_int,
                                              desc, mech)
                        total += got
                        bad += not ok
                        if bad > 2:
                            break
                except Exception as e:
                    where = panqec_frame(e)
                    if where is None:
                        raise
                    out.violation(f'{mech}/raises-{type(e).__name__}',
                                  f'{type(e).__name__}: {e} at {where}',
                                  desc)
                    continue
                out.count('normalisation_sums')
                if bad <= 2 and abs(total - 1) > 1e-12 * 4 ** n:
                    out.violation(f'{mech}/not-normalised',
                                  f'probabilities of all 4^{n} errors sum to '
                                  f'{total!r}', desc)
                out.case(desc, True, n=4 ** n, distinct=4 ** n - 1,
                         sample=dict(desc, n=n, total=total)
                         if direction == (0.5, 0.3, 0.2) else None)
                # the same model object after decoders were built and run on
                # it (the simulation layers share it with them): the sum over
                # all errors is taken again
                if 0 < p < 1 and dn is None and code.is_css and n >= 2 and \
                        min(direction) >= 0:
                    from panqec.decoders import BeliefPropagationOSDDecoder
                    try:
                        with contextlib.redirect_stdout(io.StringIO()):
                            for cu in (True, False):
                                dec = BeliefPropagationOSDDecoder(
                                    code, em, p, channel_update=cu,
                                    max_bp_iter=5)
                                for w in (1, min(2, n)):
                                    ee = np.zeros(2 * n, dtype='uint8')
                                    ee[:w] = 1
                                    ee[n + w - 1] = 1
                                    dec.decode(code.measure_syndrome(ee))
                        again = 0.0
                        for e_int in range(4 ** n):
                            got, ok = compare_one(
                                out, em, code, tab, e_int, desc,
                                mech + '/after-decoders-used-the-model')
                            again += got
                            if not ok:
                                break
                        out.count('normalisation_sums_after_decoding')
                    except Exception as e:
                        where = panqec_frame(e)
                        if where is None:
                            raise
                        out.violation(
                            f'{mech}/after-decoders/raises-'
                            f'{type(e).__name__}',
                            f'{type(e).__name__}: {e} at {where}', desc)
    out.extra.setdefault('exhaustive_codes', []).append(
        f'{cls}{tuple(size)}:n={n}')


def run_large(task, out):
    from panqec.error_models import PauliErrorModel
    rng = np.random.default_rng([task['seed'], 1818, len(task['cls'])])
    cls, size = task['cls'], tuple(task['size'])
    code = fam.build(cls, size)
    n = code.n
    for dn, kw in fam.deformations(cls)[:3]:
        for direction in task['dirs']:
            p = float(rng.choice([0.01, 0.1, 0.3, 0.5, 0.9]))
            if task.get('dense'):
                p = float(rng.choice([0.01, 0.05, 0.1]))
                out.count('log_forms_on_large_dense_errors')
            em = PauliErrorModel(*direction, deformation_name=dn,
                                 deformation_kwargs=dict(kw) if kw else None)
            tab = ref_channel(code, cls, direction, p, dn, kw)
            desc = {'cls': cls, 'size': list(size),
                    'direction': list(direction), 'p': p,
                    'noise_deformation': dn, 'kwargs': kw}
            mech = 'error_probability' + ('/deformed' if dn else '')
            probes = [0, (1 << (2 * n)) - 1]
            for _ in range(task['nrand']):
                dens = float(rng.choice([0.02, 0.2, 0.5]))
                probes.append(gf2.pack((rng.random(2 * n) < dens)
                                       .astype('uint8')))
            # errors sampled from the model itself (scripted consistency:
            # P(e) must be the product of the interval lengths hit)
            for _ in range(task['nrand'] // 2):
                e = em.generate(code, p, rng=rng)
                probes.append(gf2.pack(e))
            nb = 0
            for e_int in probes:
                try:
                    _, ok = compare_one(out, em, code, tab, e_int, desc, mech)
                except Exception as e:
                    where = panqec_frame(e)
                    if where is None:
                        raise
                    out.violation(f'{mech}/raises-{type(e).__name__}',
                                  f'{type(e).__name__}: {e} at {where}', desc)
                    break
                nb += not ok
                if nb > 2:
                    break
            out.case(desc, True, n=len(probes),
                     distinct=len(set(probes) - {0}))


class RandomProxy:
    """Stands in for np.random inside the splitting module: forwards every
    call and records each choice() with its result."""

    def __init__(self, log):
        self.log = log

    def choice(self, a, *args, **kw):
        r = np.random.choice(a, *args, **kw)
        p = kw.get('p')
        self.log.append(('choice', a if isinstance(a, (int, np.integer))
                         else list(a), None if p is None else
                         [float(x) for x in p], r))
        return r

    def __getattr__(self, name):
        return getattr(np.random, name)


class NPProxy:
    def __init__(self, log):
        self.random = RandomProxy(log)

    def __getattr__(self, name):
        return getattr(np, name)


def run_metropolis(task, out):
    """Real SplittingSimulation.run.  Every Metropolis step is reconstructed
    at the boundary: the error handed to get_next_error, the proposed qubit
    and Pauli (the module's own random choices, recorded), the acceptance
    probability handed to the random choice, and the returned (error, log p).
    All are compared with the reference channel -- independently of how
    panqec computes the ratio internally."""
    from panqec.error_models import PauliErrorModel
    from panqec.decoders import MatchingDecoder
    from panqec.simulation import SplittingSimulation
    import panqec.simulation._splitting_simulation as sp
    np.random.seed(task['seed'] + 18)
    for cls, size in (('Toric2DCode', (3, 3)), ('Planar2DCode', (3, 3)),
                      ('RotatedPlanar2DCode', (3, 3))):
        for direction, dn in (((0.5, 0.3, 0.2), None),
                              ((1 / 3, 1 / 3, 1 / 3), None),
                              ((0.1, 0.2, 0.7), 'XZZX'),
                              ((0.2, 0.6, 0.2), 'XY'),
                              ((0.0, 0.0, 1.0), None)):
            code = fam.build(cls, size)
            n = code.n
            em = PauliErrorModel(*direction, deformation_name=dn)
            # the rates in the order a caller may list them (the batch layer
            # and input files list them ascending)
            rates = [[0.2, 0.1], [0.1, 0.2], [0.15, 0.3, 0.05]][
                (len(cls) + len(str(dn)) + int(direction[0] * 10)) % 3]
            if rates != sorted(rates, reverse=True):
                out.count('splitting_runs_with_rates_not_descending')
            decs = [MatchingDecoder(code, em, r) for r in rates]
            log = []
            steps_rec = []
            real_gne = sp.SplittingSimulation.get_next_error

            def gne(self, decoder, error_rate, previous_error, *a,
                    _log=log, _rec=steps_rec, **kw):
                start = len(_log)
                prev = gf2.pack(previous_error)
                nxt, lp = real_gne(self, decoder, error_rate, previous_error,
                                   *a, **kw)
                _rec.append((prev, float(error_rate), gf2.pack(nxt),
                             float(lp), list(_log[start:])))
                return nxt, lp
            sp.SplittingSimulation.get_next_error = gne
            real_np = sp.np
            sp.np = NPProxy(log)
            desc = {'k': 'metropolis', 'cls': cls, 'size': list(size),
                    'direction': list(direction), 'noise_deformation': dn}
            mech = 'splitting'
            try:
                with contextlib.redirect_stdout(io.StringIO()):
                    sim = SplittingSimulation(code, em, decs, rates,
                                              n_init_runs=10)
                    sim.run(task['steps'])
            except Exception as e:
                where = panqec_frame(e)
                if where is None:
                    raise
                out.violation(f'{mech}/raises-{type(e).__name__}',
                              f'{type(e).__name__}: {e} at {where}', desc)
                continue
            finally:
                sp.np = real_np
                sp.SplittingSimulation.get_next_error = real_gne
            steps = 0
            # every chain is stepped at, and its log p recorded for, the
            # rate it is reported under
            reported = [float(x) for x in sim.error_rates]
            for k, (prev, rate, nxt, lp, calls) in enumerate(steps_rec):
                if abs(rate - reported[k % len(reported)]) > 1e-15:
                    out.violation(
                        f'{mech}/chain-stepped-at-another-rate',
                        f'chain {k % len(reported)} is reported under error '
                        f'rate {reported[k % len(reported)]} but was stepped '
                        f'at {rate}', dict(desc, rates_given=rates))
                    break
            res = sim._results
            for i_p, rate in enumerate(reported):
                cur = gf2.pack(np.asarray(sim.current_error[i_p]).astype(int))
                tab = ref_channel(code, cls, direction, rate, dn, {})
                want = ref_logprob(tab, cur, n)
                got = float(res['log_p_errors'][i_p][-1])
                out.count('chain_end_states_compared')
                if not math.isinf(want) and \
                        abs(got - want) > 1e-9 * max(1.0, abs(want)):
                    out.violation(
                        f'{mech}/recorded-log-probability/at-reported-rate',
                        f'chain {i_p} (reported under p={rate}): last '
                        f'recorded log p {got!r} but log P(current error) '
                        f'at that rate is {want!r}',
                        dict(desc, rates_given=rates))
            for prev, rate, nxt, lp, calls in steps_rec:
                ch = [c for c in calls if c[0] == 'choice']
                if len(ch) != 3 or ch[2][1] != [0, 1] or ch[2][2] is None:
                    out.violation(f'{mech}/unexpected-random-protocol',
                                  f'{len(ch)} random choices in one step',
                                  desc)
                    break
                q_idx = int(ch[0][3])
                letter = str(ch[1][3])
                q = ch[2][2][1]
                accepted = int(ch[2][3])
                edge = 0
                if letter in 'XY':
                    edge |= 1 << q_idx
                if letter in 'ZY':
                    edge |= 1 << (n + q_idx)
                new = prev ^ edge
                tab = ref_channel(code, cls, direction, rate, dn, {})
                r_old = ref_logprob(tab, prev, n)
                r_new = ref_logprob(tab, new, n)
                steps += 1
                out.count('metropolis_steps_observed')
                if gf2.weight(prev, n) and ((prev >> q_idx) & 1 or
                                            (prev >> (n + q_idx)) & 1):
                    out.count('metropolis_moves_on_occupied_qubit')
                w = dict(desc, rate=rate, old=gf2.unpack(prev, 2 * n),
                         proposed_qubit=q_idx, proposed_pauli=letter)
                if math.isinf(r_old) or math.isinf(r_new):
                    continue
                q_ref = math.exp(min(0.0, r_new - r_old))
                if abs(q - q_ref) > 1e-9 * max(q_ref, 1e-12):
                    out.violation(
                        f'{mech}/acceptance/not-the-likelihood-ratio',
                        f'acceptance probability {q!r} but the true '
                        f'likelihood ratio gives {q_ref!r} (proposal '
                        f'{letter} on qubit {q_idx})', w)
                    break
                if nxt not in (prev, new):
                    out.violation(f'{mech}/next-error-not-old-or-proposed',
                                  'returned error is neither the previous '
                                  'nor the proposed one', w)
                    break
                if not accepted and nxt != prev:
                    out.violation(f'{mech}/moved-without-acceptance',
                                  'chain moved although the proposal was '
                                  'rejected', w)
                    break
                r_nxt = ref_logprob(tab, nxt, n)
                if abs(lp - r_nxt) > 1e-9 * max(1.0, abs(r_nxt)):
                    out.violation(
                        f'{mech}/recorded-log-probability',
                        f'log p recorded for the returned error is {lp!r} '
                        f'but its log-probability is {r_nxt!r}', w)
                    break
            out.case(desc, steps > 0, n=max(steps, 1), distinct=steps,
                     sample=dict(desc, steps=steps))


def plan(tier, seed):
    tasks = []
    dirs = (DIRS if tier == 'thorough' else DIRS[:6]) + MIXED_DIRS
    rates = [0.0, 0.07, 0.3, 1.0] if tier == 'thorough' else [0.07, 0.3]
    for cls, s, n in small_codes():
        if tier == 'quick' and n > 5:
            continue
        tasks.append({'kind': 'small', 'cls': cls, 'size': list(s),
                      'dirs': [list(d) for d in dirs], 'rates': rates,
                      'cost': 4 ** n * len(dirs) * len(rates) *
                      len(fam.deformations(cls)) / 50})
    large = [('Toric2DCode', (3, 4)), ('Planar2DCode', (4, 3)),
             ('RotatedPlanar2DCode', (4, 5)), ('Toric3DCode', (2, 3, 2)),
             ('XCubeCode', (2, 2, 3)), ('RhombicToricCode', (2, 2, 2)),
             ('Color666ToricCode', (2, 2)), ('Color488Code', (1, 2)),
             ('RotatedToric3DCode', (2, 4, 2)), ('HollowRhombicCode', (2, 2, 3)),
             ('Color3DCode', (2, 2, 2)), ('RotatedPlanar3DCode', (2, 3, 2))]
    for cls, s in large:
        tasks.append({'kind': 'large', 'cls': cls, 'size': list(s),
                      'dirs': [list(d) for d in dirs], 'seed': seed,
                      'nrand': 10 if tier == 'quick' else 80,
                      'cost': 800 if tier == 'quick' else 6000})
    # hundreds of qubits with dense errors: the probability itself
    # underflows a double, its logarithm must not
    for cls, s in [('Toric2DCode', (16, 16)), ('Toric3DCode', (5, 5, 5)),
                   ('RotatedPlanar2DCode', (21, 21))] + (
            [('Toric2DCode', (24, 24)), ('XCubeCode', (6, 6, 6))]
            if tier == 'thorough' else []):
        tasks.append({'kind': 'large', 'cls': cls, 'size': list(s),
                      'dirs': [list(d) for d in dirs[:3]], 'seed': seed,
                      'nrand': 6 if tier == 'quick' else 30, 'dense': True,
                      'cost': 1500 if tier == 'quick' else 8000})
    tasks.append({'kind': 'usermodel', 'seed': seed, 'cost': 300})
    tasks.append({'kind': 'metropolis', 'seed': seed,
                  'steps': 40 if tier == 'quick' else 400,
                  'cost': 3000 if tier == 'quick' else 30000})
    return tasks


def run_user_model(task, out):
    """A noise model written by a user: a PauliErrorModel subclass that
    overrides probability_distribution (qubit-dependent rates).  Its
    error_probability must be the product of ITS table, and its samples must
    follow that same table (scripted variates, as in C07)."""
    from panqec.error_models import PauliErrorModel
    from pv.checks import c07
    rng = np.random.default_rng([task['seed'], 1819])

    class HotRowsNoise(PauliErrorModel):
        def probability_distribution(self, code, error_rate):
            rx, ry, rz = self.direction
            hot = np.array([1.0 + 0.8 * (q[0] % 4 == 1)
                            for q in code.qubit_coordinates])
            px, py, pz = (error_rate * r * hot / 2 for r in (rx, ry, rz))
            return 1 - px - py - pz, px, py, pz
    for cls, size in (('Toric2DCode', (3, 4)), ('Planar2DCode', (2, 3)),
                      ('RotatedPlanar3DCode', (2, 2, 2))):
        code = fam.build(cls, size)
        n = code.n
        for direction in ((0.5, 0.3, 0.2), (1 / 3, 1 / 3, 1 / 3),
                          (0.1, 0.0, 0.9)):
            em = HotRowsNoise(*direction)
            for p in (0.1, 0.6):
                tab = np.stack([np.asarray(x, dtype=float) for x in
                                em.probability_distribution(code, p)], axis=1)
                desc = {'cls': cls, 'size': list(size),
                        'direction': list(direction), 'p': p,
                        'noise_deformation': None, 'kwargs': {},
                        'model': 'user subclass overriding '
                                 'probability_distribution'}
                mech = 'error_probability/user-model'
                out.count('user_model_tables')
                probes = [0, (1 << (2 * n)) - 1] + [
                    gf2.pack((rng.random(2 * n) < 0.3).astype('uint8'))
                    for _ in range(12)]
                try:
                    for e_int in probes:
                        compare_one(out, em, code, tab, e_int, desc, mech)
                    c07.check_sampling(out, em, code, tab, desc,
                                       'sampling/user-model', rng, 3)
                except Exception as e:
                    where = panqec_frame(e)
                    if where is None:
                        raise
                    out.violation(f'{mech}/raises-{type(e).__name__}',
                                  f'{type(e).__name__}: {e} at {where}', desc)
                out.case(desc, True, n=len(probes))


def run_task(task, out):
    {'small': run_small, 'large': run_large, 'usermodel': run_user_model,
     'metropolis': run_metropolis}[task['kind']](task, out)


def classify(v):
    return None


def replay(v, out):
    from panqec.error_models import PauliErrorModel
    w = v['witness']
    if w.get('k') == 'metropolis':
        run_metropolis({'seed': v.get('seed', 0), 'steps': 40}, out)
        return
    code = fam.build(w['cls'], tuple(w['size']))
    em = PauliErrorModel(*w['direction'],
                         deformation_name=w.get('noise_deformation'),
                         deformation_kwargs=w.get('kwargs') or None)
    tab = ref_channel(code, w['cls'], tuple(w['direction']), w['p'],
                      w.get('noise_deformation'), w.get('kwargs') or {})
    compare_one(out, em, code, tab, gf2.pack(w['error']), w,
                'error_probability')
