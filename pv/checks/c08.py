"""C08 — Clifford deformation is one consistent single-qubit relabelling.

Monitors (all on values the library returns, judged by own relabelling on
bit-packed ints):
  (i)   get_deformation per qubit: a permutation of {X,Y,Z}, stable under
        repeated queries; XZZX = X<->Z exactly on qubits along the axis,
        XY = Y<->Z everywhere;
  (ii)  rows / logicals of code.deform(name, **kw) == relabelled rows /
        logicals of the undeformed code (so n, k, rank, commutation carry
        over);
  (iii) syn_def(D e) == syn(e) and logical_def(D e) == logical(e) on all 2n
        basis errors and random ones;
  (iv)  noise deformed by the same name: P_def(sigma) = P(D sigma) per qubit,
        with non-symmetric and X/Z-symmetric directions; on n<=6 codes the
        full joint law of (syndrome, logical class) agrees between "deformed
        code + plain noise" and "plain code + deformed noise";
  (v)   histories: any sequence of deform calls and property reads on one
        object ends in the state of a fresh object deformed once.
"""
from __future__ import annotations

import numpy as np

from pv import gf2
from pv import families as fam
from pv.common import panqec_frame
from pv.checks.c07 import ref_permutation

PROPERTY = 'C08'
LEVEL = 'exploration'
TECHNIQUE = ('runtime monitoring: reference relabelling oracle on deformed '
             'matrices; metamorphic monitor (code-side vs noise-side '
             'deformation, exact joint law on n<=6); history checker over '
             'deform/access sequences on one object vs fresh objects')
MANIFEST_TEXT = ('Every class x family size below the bound x deformation '
                 'name x axis: the deformed parity-check matrix and logicals '
                 'are recomputed by an independent per-qubit relabelling of '
                 'the undeformed ones; syndromes/logical effects of D(e) are '
                 'compared on a basis; noise-side permutation compared per '
                 'qubit and, on tiny codes, through the exact joint law; '
                 'random deform/access histories on one object are compared '
                 'with fresh objects.')
MANIFEST_NOTE = ('Trusted: pv/gf2.py; the XZZX / XY patterns are taken from '
                 'the property statement, other names only need to be '
                 'permutations applied consistently.')
RULE = ('case = one (class,size,name,kwargs) object, or one history, or one '
        'joint-law comparison; distinct by descriptor (+history digest); '
        'non-trivial = the deformation changes at least one row of H')
ASSUMPTIONS = ['supported size family = pv/families.py']
REQUIRED_COUNTERS = ['deformed_objects', 'rows_relabelled_and_compared',
                     'error_images_compared', 'noise_tables_compared',
                     'joint_laws_compared', 'histories_checked',
                     'history_steps', 'permutation_queries',
                     'same_object_axis_queries', 'hadamard_helper_masks',
                     'copies_of_deformed_objects_judged',
                     'error_probabilities_compared']

LET2BITS = {'I': (0, 0), 'X': (1, 0), 'Y': (1, 1), 'Z': (0, 1)}
BITS2LET = {v: k for k, v in LET2BITS.items()}


def relabel(v, perm, n):
    """Apply per-qubit letter permutation to a packed BSF vector."""
    out = 0
    for i, d in enumerate(perm):
        x = (v >> i) & 1
        z = (v >> (n + i)) & 1
        if not (x or z):
            continue
        nx, nz = LET2BITS[d[BITS2LET[(x, z)]]]
        out |= (nx << i) | (nz << (n + i))
    return out


def inverse_perm(perm):
    return [{v: k for k, v in d.items()} for d in perm]


def observable_state(code):
    """Everything a user can read off a code object, as comparable data."""
    H = code.stabilizer_matrix.tocsr()
    H.sort_indices()
    st = {
        'n': code.n, 'k': code.k, 'd': int(code.d),
        'H': (H.shape, H.indptr.tobytes(), H.indices.tobytes(),
              H.data.astype('uint8').tobytes()),
        'Lx': np.ascontiguousarray(code.logicals_x).astype('uint8').tobytes(),
        'Lz': np.ascontiguousarray(code.logicals_z).astype('uint8').tobytes(),
        'x_idx': np.asarray(code.x_indices).tobytes(),
        'z_idx': np.asarray(code.z_indices).tobytes(),
        'css': bool(code.is_css),
        'qindex': tuple(code.qubit_index.items()),
        'sindex': tuple(code.stabilizer_index.items()),
    }
    if st['css']:
        for nm in ('Hx', 'Hz'):
            M = getattr(code, nm).tocsr()
            M.sort_indices()
            st[nm] = (M.shape, M.indptr.tobytes(), M.indices.tobytes())
    return st


def diff_state(a, b):
    return [k for k in a if k not in b or a[k] != b[k]] + \
        [k for k in b if k not in a]


def check_deformation(out, cls, size, name, kwargs, rng, tier):
    desc = {'cls': cls, 'size': list(size), 'deformation': name,
            'kwargs': kwargs}
    mech = f'{cls}/{name}'
    base = fam.build(cls, size)
    n = base.n
    # (i) permutation-ness, stability, stated pattern
    perm = []
    for loc in base.qubit_coordinates:
        d1 = base.get_deformation(loc, name, **kwargs)
        d2 = base.get_deformation(loc, name, **kwargs)
        out.count('permutation_queries', 2)
        if dict(d1) != dict(d2):
            out.violation(f'{mech}/unstable-map',
                          f'get_deformation({loc}) differs between calls',
                          desc)
        if sorted(d1.keys()) != ['X', 'Y', 'Z'] or \
                sorted(d1.values()) != ['X', 'Y', 'Z']:
            out.violation(f'{mech}/not-a-permutation',
                          f'get_deformation({loc}) = {dict(d1)}', desc)
            return
        perm.append({k: d1[k] for k in 'XYZ'})
    stated = ref_permutation(base, cls, name, kwargs)
    if name in ('XZZX', 'XY') and stated != perm:
        i = next(i for i in range(n) if stated[i] != perm[i])
        out.violation(f'{mech}/pattern-differs-from-statement',
                      f'qubit {i} at {base.qubit_coordinates[i]} (axis '
                      f'{base.qubit_axis(base.qubit_coordinates[i])}): '
                      f'{perm[i]} but statement says {stated[i]}', desc)
    # (ii) deformed rows = relabelled undeformed rows
    deformed = fam.build(cls, size, name, kwargs)
    H0 = gf2.pack_rows(base.stabilizer_matrix)
    H1 = gf2.pack_rows(deformed.stabilizer_matrix)
    changed = 0
    ok = True
    if deformed.n != n or len(H1) != len(H0) or deformed.k != base.k:
        out.violation(f'{mech}/n-k-m-changed',
                      f'n {n}->{deformed.n}, k {base.k}->{deformed.k}, '
                      f'm {len(H0)}->{len(H1)}', desc)
        return
    for i, (h0, h1) in enumerate(zip(H0, H1)):
        out.count('rows_relabelled_and_compared')
        r = relabel(h0, perm, n)
        changed += r != h0
        if r != h1:
            ok = False
            out.violation(f'{mech}/stabilizer-row-not-relabelled',
                          f'row {i} of the deformed code is not the image of '
                          f'the undeformed row under the deformation', desc)
            break
    for nm in ('logicals_x', 'logicals_z'):
        L0 = gf2.pack_rows(getattr(base, nm))
        L1 = gf2.pack_rows(getattr(deformed, nm))
        for j, (a, b) in enumerate(zip(L0, L1)):
            out.count('rows_relabelled_and_compared')
            if relabel(a, perm, n) != b:
                ok = False
                out.violation(f'{mech}/{nm}-not-relabelled',
                              f'{nm}[{j}] of the deformed code is not the '
                              f'image of the undeformed logical', desc)
                break
    if gf2.rank(H1) != gf2.rank(H0):
        out.violation(f'{mech}/rank-changed', 'rank(H) changed', desc)
    out.count('deformed_objects')
    # (iii) the deformed code sees D(e) as the original sees e
    probes = [1 << i for i in range(2 * n)]
    nrand = 10 if tier == 'quick' else 60
    for _ in range(nrand):
        probes.append(gf2.pack((rng.random(2 * n) < 0.3).astype('uint8')))
    if n > 150:
        probes = [probes[int(i)] for i in
                  rng.choice(len(probes), size=150, replace=False)]
    for e in probes:
        De = relabel(e, perm, n)
        s0 = np.asarray(base.measure_syndrome(gf2.unpack(e, 2 * n)))
        s1 = np.asarray(deformed.measure_syndrome(gf2.unpack(De, 2 * n)))
        l0 = np.asarray(base.logical_errors(gf2.unpack(e, 2 * n)))
        l1 = np.asarray(deformed.logical_errors(gf2.unpack(De, 2 * n)))
        out.count('error_images_compared')
        if not np.array_equal(s0, s1):
            out.violation(f'{mech}/syndrome-of-image-differs',
                          'syn_deformed(D e) != syn(e)', desc)
            break
        if not np.array_equal(l0, l1):
            out.violation(f'{mech}/logical-effect-of-image-differs',
                          'logical_deformed(D e) != logical(e)', desc)
            break
    # (iv) noise side, per qubit
    from panqec.error_models import PauliErrorModel
    for direction in ((0.5, 0.3, 0.2), (0.2, 0.6, 0.2), (0.0, 1.0, 0.0),
                      (0.1, 0.1, 0.8)):
        p = 0.3
        plain = PauliErrorModel(*direction)
        defd = PauliErrorModel(*direction, deformation_name=name,
                               deformation_kwargs=dict(kwargs) if kwargs
                               else None)
        T0 = np.stack(plain.probability_distribution(base, p), axis=1)
        T1 = np.stack(defd.probability_distribution(base, p), axis=1)
        out.count('noise_tables_compared')
        col = {'I': 0, 'X': 1, 'Y': 2, 'Z': 3}
        for i in range(n):
            for sig in 'XYZ':
                if abs(T1[i, col[sig]] - T0[i, col[perm[i][sig]]]) > 1e-15:
                    out.violation(
                        f'{mech}/noise-permutation',
                        f'direction {direction}: P_def({sig}) on qubit {i} = '
                        f'{T1[i, col[sig]]} but P(D {sig} = {perm[i][sig]}) = '
                        f'{T0[i, col[perm[i][sig]]]}',
                        dict(desc, direction=direction))
                    break
            else:
                continue
            break
    # (iv-b) whole errors: the deformed model gives e the probability the
    # plain model gives D(e); the caller's array (here also a row of the
    # code's own logicals) is evaluated twice and must read the same after
    import math
    for direction in ((0.5, 0.3, 0.2), (0.1, 0.2, 0.7)):
        plain = PauliErrorModel(*direction)
        defd = PauliErrorModel(*direction, deformation_name=name,
                               deformation_kwargs=dict(kwargs) if kwargs
                               else None)
        rows = [np.asarray(base.logicals_x[0]), np.asarray(base.logicals_z[0])]
        rows += [(rng.random(2 * n) < 0.3).astype('uint8') for _ in range(3)]
        Lx0 = np.array(base.logicals_x, copy=True)
        for arr in rows:
            e_int = gf2.pack(arr)
            De = gf2.unpack(relabel(e_int, perm, n), 2 * n)
            snap = arr.tobytes()
            for p_, lg in ((0.3, False), (0.05, True), (0.3, False)):
                out.count('error_probabilities_compared')
                got = float(defd.error_probability(arr, base, p_,
                                                   log_output=lg))
                want = float(plain.error_probability(De.copy(), base, p_,
                                                     log_output=lg))
                if arr.tobytes() != snap:
                    out.violation(f'{mech}/error_probability-modifies-'
                                  'its-argument', 'the error passed to '
                                  'error_probability reads differently '
                                  'after the call', desc)
                    break
                if not (got == want or math.isclose(got, want, rel_tol=1e-9,
                                                    abs_tol=1e-300)):
                    out.violation(f'{mech}/error_probability-of-image',
                                  f'P_def(e)={got!r} but P(D e)={want!r} '
                                  f'(p={p_}, log={lg})', desc)
                    break
        if not np.array_equal(np.asarray(base.logicals_x), Lx0):
            out.violation(f'{mech}/logicals-changed-by-error_probability',
                          'code.logicals_x changed after its rows were '
                          'passed to error_probability', desc)
    # (v) the library's Hadamard helper applied to the undeformed rows with
    # the qubit mask in any form a caller may hold it in gives the same code
    ident = {'X': 'X', 'Y': 'Y', 'Z': 'Z'}
    hadam = {'X': 'Z', 'Y': 'Y', 'Z': 'X'}
    if all(d in (ident, hadam) for d in perm) and n <= 400:
        from panqec import bpauli
        idx = np.array([d == hadam for d in perm])
        H0d = base.stabilizer_matrix.toarray().astype('uint8')
        H1d = deformed.stabilizer_matrix.toarray().astype('uint8')
        forms = {'bool-array': idx, 'bool-list': [bool(x) for x in idx],
                 'int64-array': idx.astype(np.int64),
                 'uint8-array': idx.astype(np.uint8),
                 'int-list': [int(x) for x in idx]}
        for fk, mask in forms.items():
            out.count('hadamard_helper_masks')
            try:
                got = np.asarray(bpauli.apply_deformation(mask, H0d.copy()))
            except Exception as e:
                from pv.common import panqec_frame
                if panqec_frame(e) is None:
                    raise
                out.violation(f'{mech}/apply_deformation/{fk}/raises',
                              f'{type(e).__name__}: {e}', desc)
                continue
            if got.shape != H1d.shape or not np.array_equal(got % 2, H1d):
                out.violation(f'{mech}/apply_deformation/{fk}',
                              'apply_deformation(mask, H) with the mask of '
                              'Hadamard qubits is not the deformed code',
                              dict(desc, mask_form=fk))
    out.case(desc, nontrivial=changed > 0,
             sample=dict(desc, n=n, rows_changed=changed, ok=ok))
    return perm


def check_noise_same_object(out, cls, size):
    """ONE code object, one rate, noise models that differ only in the
    deformation axis (and an undeformed one), queried in both orders."""
    from panqec.error_models import PauliErrorModel
    defs = fam.deformations(cls)
    if len(defs) < 3:
        return
    direction, p = (0.5, 0.3, 0.2), 0.2
    for order in (defs, defs[::-1]):
        code = fam.build(cls, size)
        n = code.n
        plain = np.stack(PauliErrorModel(*direction).probability_distribution(
            fam.build(cls, size), p), axis=1)
        col = {'I': 0, 'X': 1, 'Y': 2, 'Z': 3}
        for name, kw in order:
            em = PauliErrorModel(*direction, deformation_name=name,
                                 deformation_kwargs=dict(kw) if kw else None)
            T = np.stack(em.probability_distribution(code, p), axis=1)
            perm = ref_permutation(code, cls, name, kw)
            out.count('noise_tables_compared')
            out.count('same_object_axis_queries')
            for i in range(n):
                if any(abs(T[i, col[sig]] - plain[i, col[perm[i][sig]]])
                       > 1e-15 for sig in 'XYZ'):
                    out.violation(
                        f'{cls}/{name}/noise-permutation/same-code-object',
                        f'model {name} {kw} queried after other axes on the '
                        f'same code object: qubit {i} gets {T[i].tolist()}',
                        {'cls': cls, 'size': list(size), 'deformation': name,
                         'kwargs': kw,
                         'order': [[a, b] for a, b in order]})
                    break
    out.case({'cls': cls, 'size': list(size), 'k': 'noise-same-object'},
             True)


def joint_law(code, tables):
    """Exact law of (syndrome, logical effect) under a per-qubit channel,
    all 4^n errors, library syndrome/logical functions."""
    n = code.n
    H = gf2.pack_rows(code.stabilizer_matrix)
    Lx = gf2.pack_rows(code.logicals_x)
    Lz = gf2.pack_rows(code.logicals_z)
    T = np.stack(tables, axis=1)
    law = {}
    # bits order for a letter index 0..3 = I,X,Y,Z
    bits = [(0, 0), (1, 0), (1, 1), (0, 1)]
    for idx in range(4 ** n):
        e = 0
        pr = 1.0
        t = idx
        for i in range(n):
            a = t & 3
            t >>= 2
            pr *= T[i, a]
            x, z = bits[a]
            e |= (x << i) | (z << (n + i))
        if pr == 0.0:
            continue
        s = gf2.syndrome_int(H, e, n)
        le = tuple(gf2.symp(l, e, n) for l in Lz) + \
            tuple(gf2.symp(l, e, n) for l in Lx)
        law[(s, le)] = law.get((s, le), 0.0) + pr
    return law


def check_joint(out, cls, size, name, kwargs):
    from panqec.error_models import PauliErrorModel
    base = fam.build(cls, size)
    deformed = fam.build(cls, size, name, kwargs)
    desc = {'cls': cls, 'size': list(size), 'deformation': name,
            'kwargs': kwargs, 'k': 'joint-law'}
    for direction, p in (((0.5, 0.3, 0.2), 0.2), ((0.2, 0.6, 0.2), 0.3)):
        plain = PauliErrorModel(*direction)
        defd = PauliErrorModel(*direction, deformation_name=name,
                               deformation_kwargs=dict(kwargs) if kwargs
                               else None)
        A = joint_law(deformed, plain.probability_distribution(deformed, p))
        B = joint_law(base, defd.probability_distribution(base, p))
        out.count('joint_laws_compared')
        keys = set(A) | set(B)
        worst = max(abs(A.get(k, 0.0) - B.get(k, 0.0)) for k in keys)
        if worst > 1e-12:
            out.violation(f'{cls}/{name}/joint-law-differs',
                          f'"deformed code + plain noise" and "plain code + '
                          f'deformed noise" give different laws of (syndrome,'
                          f' logical): max diff {worst:.3g}',
                          dict(desc, direction=direction))
    out.case(desc, True, sample=desc)


READS = ['stabilizer_matrix', 'Hx', 'logicals_x', 'logicals_z', 'd',
         'qubit_index', 'x_indices', 'is_css', 'k', 'Hz', 'n',
         'stabilizer_index', 'z_indices']


def check_history(out, cls, size, rng, fresh_states):
    """Random deform / read sequence on ONE object vs a fresh object
    deformed once by the last call."""
    defs = [d for d in fam.deformations(cls) if d[0] is not None]
    code = fam.build(cls, size)
    hist = []
    last = None
    L = int(rng.integers(1, 9))
    try:
        for step in range(L):
            if rng.random() < 0.55 or step == 0:
                for _ in range(int(rng.integers(0, 4))):
                    attr = str(rng.choice(READS))
                    try:
                        getattr(code, attr)
                    except ValueError:
                        pass            # Hx / Hz on a non-CSS code
                    hist.append(['read', attr])
                if rng.random() < 0.3:
                    e = (rng.random(2 * code.n) < 0.2).astype('uint8')
                    code.measure_syndrome(e)
                    code.is_success(e)
                    hist.append(['use'])
            name, kw = defs[int(rng.integers(0, len(defs)))]
            code.deform(name, **kw)
            hist.append(['deform', name, kw])
            last = (name, kw)
            out.count('history_steps')
        key = (last[0], tuple(sorted(last[1].items())))
        if key not in fresh_states:
            fresh_states[key] = observable_state(
                fam.build(cls, size, last[0], last[1]))
        # the deformed object is sometimes handed on as a copy (a batch
        # builder, a worker process): the copy is the same deformed code
        how = str(rng.choice(['none', 'none', 'deepcopy', 'copy',
                              'read-then-deepcopy']))
        if how != 'none':
            import copy
            if how == 'read-then-deepcopy':
                code.stabilizer_matrix
                hist.append(['read', 'stabilizer_matrix'])
            code = copy.deepcopy(code) if 'deepcopy' in how else \
                copy.copy(code)
            hist.append([how])
            out.count('copies_of_deformed_objects_judged')
        got = observable_state(code)
    except Exception as e:
        where = panqec_frame(e)
        if where is None:
            raise
        out.violation(f'{cls}/history/raises-{type(e).__name__}',
                      f'{type(e).__name__}: {e} at {where}',
                      {'cls': cls, 'size': list(size), 'history': hist})
        return
    out.count('histories_checked')
    desc = {'cls': cls, 'size': list(size), 'history': hist, 'k': 'history'}
    ndef = sum(1 for h in hist if h[0] == 'deform')
    out.case(desc, nontrivial=len(hist) > 1)
    d = diff_state(got, fresh_states[key])
    if d:
        out.violation(f'{cls}/history/state-differs-from-fresh/' +
                      '+'.join(sorted(d)[:3]),
                      f'after {ndef} deform calls and '
                      f'{len(hist) - ndef} reads the object differs from a '
                      f'fresh object deformed once by the last call in: {d}',
                      desc)
    if code.deformation_name != last[0] or not code.is_deformed:
        out.violation(f'{cls}/history/deformation-metadata',
                      'deformation_name / is_deformed not those of the last '
                      'call', desc)


BOUNDS = {'quick': {2: 4, 3: 3}, 'thorough': {2: 7, 3: 4}}
NMAX = {'quick': 200, 'thorough': 800}


def plan(tier, seed):
    tasks = []
    for cls in fam.ALL_CLASSES:
        if len(fam.deformations(cls)) < 2:
            continue
        B = BOUNDS[tier][fam.dimension(cls)]
        if cls == 'RhombicToricCode':
            B = 4
        for s in fam.sizes_upto(cls, B):
            if fam.n_estimate(cls, s) > NMAX[tier]:
                continue
            if cls == 'Color666ToricCode' and s[0] != s[1]:
                continue      # C01 known finding: object cannot be built
            tasks.append({'kind': 'obj', 'cls': cls, 'size': list(s),
                          'tier': tier, 'seed': seed,
                          'cost': fam.n_estimate(cls, s) ** 1.3 *
                          len(fam.deformations(cls))})
    # joint laws on every family code with n <= 6 offering a deformation
    small = []
    for cls in fam.ALL_CLASSES:
        if len(fam.deformations(cls)) < 2:
            continue
        for s in fam.sizes_upto(cls, 3):
            if fam.n_estimate(cls, s) > 30:
                continue
            try:
                if fam.build(cls, s).n <= 6:
                    small.append((cls, s))
            except Exception:
                pass
    if tier == 'quick':
        small = [x for x in small if fam.build(*x).n <= 5][:14]
    for cls, s in small:
        tasks.append({'kind': 'joint', 'cls': cls, 'size': list(s),
                      'tier': tier, 'seed': seed, 'cost': 400})
    nh = 40 if tier == 'quick' else 300
    hist_codes = [('Toric2DCode', (3, 4)), ('Planar2DCode', (2, 3)),
                  ('RotatedPlanar2DCode', (3, 3)), ('Toric3DCode', (2, 3, 2)),
                  ('Planar3DCode', (2, 2, 3)), ('RotatedPlanar3DCode', (2, 2, 2)),
                  ('RotatedToric3DCode', (2, 4, 2)), ('XCubeCode', (2, 2, 3)),
                  ('RhombicToricCode', (2, 2, 2)), ('RhombicPlanarCode', (2, 2, 2)),
                  ('HollowRhombicCode', (2, 2, 3)), ('Color666ToricCode', (1, 1)),
                  ('Color488Code', (1, 2))]
    for cls, s in hist_codes:
        tasks.append({'kind': 'hist', 'cls': cls, 'size': list(s), 'n': nh,
                      'tier': tier, 'seed': seed,
                      'cost': nh * fam.n_estimate(cls, s) * 2})
    return tasks


def run_task(task, out):
    cls, size = task['cls'], tuple(task['size'])
    rng = np.random.default_rng([task['seed'], 808, len(cls), sum(size)])
    if task['kind'] == 'obj':
        check_noise_same_object(out, cls, size)
        for name, kw in fam.deformations(cls):
            if name is None:
                continue
            try:
                check_deformation(out, cls, size, name, kw, rng, task['tier'])
            except Exception as e:
                where = panqec_frame(e)
                if where is None:
                    raise
                out.violation(f'{cls}/{name}/raises-{type(e).__name__}',
                              f'{type(e).__name__}: {e} at {where}',
                              {'cls': cls, 'size': list(size), 'name': name,
                               'kwargs': kw})
    elif task['kind'] == 'joint':
        for name, kw in fam.deformations(cls):
            if name is not None:
                check_joint(out, cls, size, name, kw)
    else:
        fresh = {}
        for _ in range(task['n']):
            check_history(out, cls, size, rng, fresh)


def classify(v):
    return None


def replay(v, out):
    w = v['witness']
    rng = np.random.default_rng(0)
    if w.get('k') == 'history' or 'history' in w:
        fresh = {}
        for _ in range(100):
            check_history(out, w['cls'], tuple(w['size']), rng, fresh)
    elif w.get('k') == 'joint-law':
        check_joint(out, w['cls'], tuple(w['size']), w['deformation'],
                    w.get('kwargs') or {})
    else:
        check_deformation(out, w['cls'], tuple(w['size']),
                          w.get('deformation') or w.get('name'),
                          w.get('kwargs') or {}, rng, 'quick')
